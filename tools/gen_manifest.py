#!/usr/bin/env python3
"""Generates /verif/MANIFEST.json from the table below (kept next to the registry in engine/cmd/vcheck/registry.go)."""
import json, sys

TECH = "symbolic execution of Go SSA to SMT (bounded model checking; z3/cvc5 portfolio; native replay of models)"
BASE_NOTE = ("Bounded: harness universe and path/solver caps as listed per harness in evidence.bounds; inconclusive paths are listed, never counted as held. "
             "Trusted: math/big as modelled (validated every run against the native build on sampled path models), IAVL/tm-db as key-value stores, rlp/tmjson struct layer as field boxes, "
             "signature recovery and hashes abstracted, bancor formula as uninterpreted function under its C12 contract. ")

claimed = {
 "C01": ("One inductive step per operation from an arbitrary symbolic ledger: an independent ledger oracle (sums over module getters, never the in-node Checker) must move exactly with recorded volume / emission.", "§0a.2, §4 C01", "Operations covered are those listed in evidence.harnesses; others are outside the claim."),
 "C02": ("Same steps; every ledger cell non-negative afterwards, volume <= max supply, live pool reserves > 0.", "§0a.2, §4 C02", ""),
 "C03": ("Symbolic RunTx (CheckTx then DeliverTx) with a cell-by-cell frame condition on rejection and nonce+1 on acceptance.", "§0a.2, §4 C03", ""),
 "C04": ("Symbolic RunTx: acceptance implies nonce = last+1 and the network chain id; replay harnesses deliver the same bytes twice.", "§0a.2, §4 C04", ""),
 "C05": ("Symbolic RunTx: on acceptance no account other than the signer is debited; owner gates per type (coins, candidates, commission, orders, votes, multisig creation/edit); multisig weights/duplicates/nonce; a failed check redemption charges the issuer as the property states.", "§0a.2, §4 C05", "Transaction types covered are those listed in evidence.harnesses."),
 "C06": ("Relational harness: CheckTx on a CheckState then DeliverTx on the same symbolic state; verdicts must agree and CheckTx must not mutate.", "§0a.2, §4 C06", ""),
 "C07": ("Every feasible panic path of every transaction/block harness is a violation, replayed natively before being reported.", "§0a.2, §4 C07", "Byte-level decoder layer is covered only as far as listed in evidence."),
 "C08": ("Map-iteration order as a nondeterministic choice: two State.Commit calls over a populated universe are executed under every iteration order of every map range met (one deviating site per path); the ordered database writes must be identical. A difference is confirmed natively by repeated runs showing differing IAVL root hashes.", "§0a.2, §4 C08", "PARTIAL: map-order part of the property only, concrete data; goroutine scheduling, GOMAXPROCS/GOGC, separate processes are not exercised (block execution starts no goroutines)."),
 "C09": ("Persist-then-reload step for the app DB: genesis block plus one block, with or without a restart, symbolic emission/price; a fresh instance over the same store must answer every getter like the continuing one.", "§0a.2, §4 C09", "State-module stores are covered only as listed in evidence."),
 "C10": ("The app-DB write sequence of the real Blockchain.Commit is executed against a write-budget store for every crash point; a restarted AppDB/Info() over the surviving prefix is checked against the recovery contract (no mixed height/hash pair; a reported height carries its own emission and price; h-1 keeps its own).", "§0a.2, §4 C10", "PARTIAL: application-level write order only; IAVL crash atomicity, LevelDB durability and the Tendermint handshake are by contract. Two open findings (F7, F8)."),
 "C11": ("One populated state (every module, symbolic amounts, one used-check hash with a symbolic first byte) is committed, exported, validated with AppState.Verify, imported into an empty chain and exported again; the two exports must be equal section by section and every module getter must answer alike on both chains.", "§0a.2, §4 C11", "PARTIAL: one populated universe at one height, not every history; stakes, pools and orders concrete; amino JSON of the genesis not executed. One defect found and fixed (F9: halt votes were not imported)."),
 "C12": ("Formula layer of the four bancor functions executed symbolically with big.Float over exact reals and math.Pow as a constrained uninterpreted function: results non-negative, sale return <= reserve, zero in -> zero out, selling the whole supply returns the reserve, crr=100 branches equal the exact integer formulas, and the exponent passed to Pow is the bonding-curve exponent.", "§0a.2, §4 C12", "PARTIAL: the numerical accuracy of math/pow.go, exp.go, log.go and the 100-bit rounding (bounded relative error, monotonicity under rounding, buy-then-sell) is outside; it cannot be encoded within reach of the solvers."),
 "C13": ("Bounded symbolic execution of the real swapV2.go kernels from an arbitrary symbolic pool (sell/buy keep the reserve product, CheckSwap guards Swap, mint-then-burn returns no more than was put in, burn pays at most the share, creation locks the minimum liquidity); assertions are SMT queries over unbounded integers. Order book on both sides (SellWithOrders, BuyWithOrders over a concrete book and a symbolic amount): product non-decreasing, neither reserve emptied, every coin-0 unit accounted for. Transaction level: CreateSwapPool, AddLiquidity, RemoveLiquidity through RunTx (amounts exact, limits honoured, tags equal balance changes).", "§0a.2, §4 C13", "Shape bound: one pool, one operation (inductive step). One defect found and fixed (F10: liquidity transactions validated on a wrong copy of the pool)."),
 "C14": ("The real order-book code (PairV2.SellWithOrders, calculateBuyForSellWithOrders, updateOrders, removeLimitOrder, ExpireOrders) inside a full State over a concrete book of up to 3 resting orders and a symbolic taker amount: each order is filled at its own price or better for its owner up to one unit, a later order (worse price, or same price and higher id) is touched only after the earlier one is consumed, a partial fill keeps the price (0 <= s*B - b*S < B), no open order is left below the minimum volume, a closing remainder is refunded, and cancelling or expiring in the block of the fill returns exactly the unfilled amount, once.", "§0a.2, §4 C14", "PARTIAL: books of at most 3 concrete orders; paged on-disk index and multi-block interleavings outside; owner-only cancellation, exact refund and only-once are decided at transaction level by RemoveOrder_Deliver; AddLimitOrder as a transaction is not harnessed."),
 "C15": ("Symbolic RunTx of SellCoin / BuyCoin / SellAllCoin (bancor coin <-> base) and SellSwapPool / BuySwapPool / SellAllSwapPool (token <-> base through one pool), gas coin = base or the traded coin: on acceptance the credit is at least the requested minimum, the debit at most the requested maximum, exactly the requested amount is sold / bought, a sell-all leaves nothing, and the tx.return / tx.sell_amount / tx.commission_amount tags equal the balance changes applied.", "§0a.2, §4 C15", "PARTIAL: two-coin routes only (3..5-coin routes outside the bound); BuySwapPool with concrete amounts to buy."),
 "C16": ("BeginBlock maturity loop from symbolic frozen funds (plain unbond, pending move, later heights, other candidate) with and without byzantine evidence: matured unbonds reach the owner balance, moves reach the target candidate and never the balance, nothing at other heights is released. Transaction side (symbolic RunTx of Unbond, MoveStake, Lock, Delegate, Unbond under LockStake): unbonded coins are frozen for exactly the unbond period, moved coins for exactly the move period with their target, only towards an existing other candidate, never to the balance; locked coins are frozen until exactly their due block, which must be in the future; a stake locked by LockStake cannot be unbonded.", "§0a.2 C16", "Base-coin stakes; Lock due block from four concrete heights. Open finding F5b (move target deleted before maturity) is reported by C07."),
 "C17": ("The real RecalculateStakesV2 / DeleteCandidate / GetNewCandidates over 100..102 concrete candidates plus one with a symbolic stake (every rank and tie): the top 100 by (stake desc, id asc) are kept, the rest removed with every stake frozen in full for the unbond period, a current validator is never removed, the new set is the top online candidates with >= 1000 BIP in stake order; a candidate with 1000 full slots and a symbolic incoming delegation: the newcomer displaces the smallest stake only if not smaller, the loser goes to the waitlist in full; the real updateValidators over 3 symbolic stakes: power = max(1, floor(stake*10^8/total)).", "§0a.2, §4 C17", "PARTIAL: base-coin stakes only; histories of punishments / status switches between updates are outside."),
 "C18": ("BeginBlock byzantine branch over symbolic stakes and unbonding funds: every stake and every fund in the unbond window loses v - floor(95v/100), the rest is frozen for one unbond period, the validator is dropped, total-slashed grows by the sum; other candidates untouched. Absence window: from a 10-miss pattern plus 4 arbitrary bits, more than 12 misses of 24 switch the validator off, jail its candidate until exactly height + jail period and reset the window, fewer change nothing else. SetCandidateOn/Off by RunTx: only owner/control, never on while jailed (jail height symbolic).", "§0a.2 C18", "Absence window explored over 16 windows around the threshold, not all 2^24; grace periods not in force."),
 "C19": ("EndBlock accumulation over every present/absent/missing status pattern and symbolic stakes, reward, fees: present validators accrue floor(pot*stake/total), others nothing, accrued + remainder = pot; payout block: paid never exceeds accrued; two consecutive blocks through the real BeginBlock: attendance recorded in one block does not carry over to the next.", "§0a.2, §4 C19", "Locked-stake (x3) bonus branch of PayRewardsV5Fix is outside the registered bound."),
 "C20": ("isApplicationHalted / isUpdateCommissionsBlockV2 / isUpdateNetworkBlockV2 over symbolic validator stakes and every vote pattern against the integer predicate 3*voted > 2*total. Vote transactions (SetHaltBlock, VoteUpdate) through RunTx: only the candidate owner, not for a past height, once per validator.", "§0a.2, §4 C20", "big.Float over exact reals in the quick tier; counterexamples are replayed natively with real big.Float."),
 "C28": ("EndBlock emission bookkeeping: below the cap emission grows by exactly the safe reward and the part validators do not get is credited to the zero address; at the cap nothing is minted. BeginBlock update window over chosen heights, hours and gaps with symbolic emission: the reward is recomputed exactly on the first block of a period between 12:00 and 14:59 more than 3 hours after the previous update, and is zero at the cap. AppDB.UpdatePriceFix from a stored price with one symbolic reserve: a drop of -10% or worse (integer predicate 100*r1*R0 < 91*r0*R1) zeroes the validators share, recovery by 10 BIP per update up to the price level, otherwise the price-derived reward (Pow uninterpreted).", "§0a.2 C28", "Block times concrete; previous reserves concrete; the accuracy of 350*p^(1/4) is outside (C12 limits)."),
 "C21": ("Symbolic RunTx of RedeemCheck with abstract check cryptography (issuer by signer table, lock/proof as abstract signatures; natively real secp256k1): acceptance implies due block not passed, network id, proof made with the lock's password for the redeemer's address, gas coin and gas price of the check, check unused; exactly coin and value move from issuer to redeemer, the fee leaves the issuer in the check's gas coin, third parties untouched; the check is marked used and a second redemption is rejected; a used check survives export/import for every first hash byte.", "§0a.2, §4 C21", "Pool-priced gas coins are outside the registered bound."),
 "C22": ("Symbolic RunTx of MintToken, CreateSwapPool, CreateCoin, CreateToken, RecreateCoin, RecreateToken, EditCoinOwner by the ticker owner or another account: a created ticker was free, every new coin / token / pool token gets coinsCount+1, a rejected transaction uses no id, recreation only by the owner of an existing ticker keeps the old coin under version 1 reachable by (symbol, version) and resolves the active ticker to the new id, owner change only by the owner, mint only by the owner of a mintable token within max supply, pool tokens have no owner.", "§0a.2 C22", "One recreation per ticker (repeated recreation / version numbering beyond 1 outside); burn not harnessed."),
 "C24": ("The real eventsStore over the KVModel: a batch with one event of each compacted kind and symbolic amounts, committed after 0..2 earlier batches and optionally a store restart, loads back unchanged from the same and from a fresh store; earlier batches stay loadable.", "§0a.2, §4 C24", "PARTIAL: id tables of at most 3 entries; tmjson as field box."),
 "C26": ("Two-delivery harness on RunTx: the same signed bytes delivered twice; the second delivery must be rejected and change no balance of the payer nor the reward pool, whatever the first returned.", "§0a.2, §4 C26", "Send transactions paid in the base coin; the failed-first-delivery case is a recorded open finding (F4)."),
 "C23": ("The real rlp.Stream and encbuf primitives over every buffer of up to 9 arbitrary bytes: whatever string, integer or list of strings is accepted re-encodes to exactly the bytes consumed (non-canonical size/integer forms rejected), and every integer below 2^40 encodes to something that decodes to itself; the real RecoverPlain / recoverPlain / ValidateSignatureValues over arbitrary R, S, V: anything not rejected has V in {27,28}, 1<=R<N, 1<=S<=N/2 and its malleated twin is rejected; Transaction.Hash, Check.Hash and HashWithoutLock cover every field except the signature (lock).", "§0a.2, §4 C23", "PARTIAL: the reflective struct layer of rlp (typeinfo, big.Int leading-zero check, struct tags) and the curve arithmetic of Ecrecover (so 'recovered sender is the signing key') are outside: package reflect and btcec cannot be encoded."),
 "C27": ("Fee reaching the reward pool equals gasPrice x price-table entry (symbolic price table), per transaction type covered.", "§0a.2, §4 C27", ""),
}

not_applicable = {
 "C25": "concurrency: deciding it needs a model of the Go scheduler and the runtime's concurrent-map fault detection over the whole shared state cache; outside solver-based checking of sequential SSA (DESIGN.md §5)",
 "C29": "state sync: every component on the path (zlib, protobuf, cosmos-sdk snapshot store, IAVL exporter/importer, a goroutine) would be a stub, leaving no repository logic under the solver (DESIGN.md §5)",
}
pending = {k: "not claimed yet in this revision: harnesses under construction (see DESIGN.md); no check is registered, so nothing is asserted about it" for k in
           []}

def main():
    checks = []
    for pid in sorted(claimed):
        text, ref, extra = claimed[pid]
        checks.append({
            "property_id": pid,
            "quick_cmd": f"/verif/bin/vcheck run {pid} --tier quick",
            "thorough_cmd": f"/verif/bin/vcheck run {pid} --tier thorough",
            "evidence_file": f"/verif/evidence/{pid}.json",
            "replay_cmd_template": "/verif/bin/vcheck replay {path}",
            "engine": "gosym",
            "level_claimed": {"category": "model_checking", "text": text, "design_ref": "DESIGN.md " + ref},
            "level_note": BASE_NOTE + extra,
            "technique": TECH,
        })
    na = []
    for pid in sorted(set(not_applicable) | set(pending)):
        if pid in claimed:
            continue
        na.append({"property_id": pid, "reason": not_applicable.get(pid) or pending[pid]})
    m = {
        "version": 1,
        "setup_cmd": "sh /verif/build.sh",
        "hooks": {
            "guard": "verif",
            "enable": "no tagged source in /repo: harness, accessor and runtime files are injected with go/packages Overlay (symbolic run) and go test -overlay (native replay)",
            "baseline_off_cmd": "for m in $(cat /w/out/gomods.txt); do MF=$(cd /repo/$m && . /w/out/goenv.sh && gomodflag); (cd /repo/$m && go test $MF -json -vet=off -count=1 -timeout 25m ./...); done",
            "source_commits": [],
            "add_only": True,
        },
        "engines": [{"name": "gosym", "path": "/verif/engine", "serves_properties": sorted(claimed),
                     "kind_free_text": "symbolic executor for Go SSA (fork of x/tools go/ssa/interp with SMT-term scalars), path exploration by re-execution with decision prefixes, z3 4.8.12 / z3 5.1.0 / cvc5 1.0 portfolio, native replay and differential validation"}],
        "checks": checks,
        "not_applicable": na,
        "notes": "see DESIGN.md; known findings in /verif/known_findings.json",
    }
    json.dump(m, open("/verif/MANIFEST.json", "w"), indent=1)
    print("claimed:", len(checks), "not applicable / pending:", len(na))

main()
