#!/bin/sh
# usage: intake_seed.sh <property id> <suffix letter>
# Takes what a seed author left in the scratch worktree /tmp/seedwt/<id> (source change
# applied, one new zz_seed_*_test.go) and stores it as /verif/seeded/<id>-<suffix>/
# (patch.diff, demo test, demo_path.txt); meta.json is written by hand afterwards.
set -eu
ID=$1; SUF=$2
W=/tmp/seedwt/$ID
D=/verif/seeded/$ID-$SUF
mkdir -p $D
git -C $W diff > $D/patch.diff
T=$(git -C $W ls-files --others --exclude-standard | grep '_test.go$' | head -1)
lc=$(echo $ID | tr 'A-Z' 'a-z')
cp $W/$T $D/zz_demo_${lc}_test.go
echo "$(dirname $T)/zz_demo_${lc}_test.go" > $D/demo_path.txt
echo "stored $D: $(wc -l < $D/patch.diff) patch lines, demo $T"
git -C $W diff --stat | tail -3
