#!/bin/sh
# For every seeded mutation: apply it to a scratch worktree of /repo (never to /repo
# itself), run the quick (then, if quiet, the thorough) check of the property it
# breaks against that worktree (VERIF_REPO), remove the worktree.  Evidence of these
# runs goes to a scratch directory, not to /verif/evidence.
# usage: eval_seeds.sh [seed ids...]   (default: all under /verif/seeded)
cd /verif
SEEDS="$@"
[ -z "$SEEDS" ] && SEEDS=$(ls seeded)
W=/tmp/wt/eval_$$
E=/tmp/wt/eval_ev_$$
mkdir -p $E
git -C /repo worktree add --detach $W HEAD -q || exit 2
for s in $SEEDS; do
  prop=$(python3 -c "import json;print(json.load(open('seeded/$s/meta.json'))['property'])")
  git -C $W apply /verif/seeded/$s/patch.diff || { echo "$s APPLY-FAILED"; continue; }
  t0=$(date +%s)
  VERIF_REPO=$W VERIF_EVIDENCE_DIR=$E ./bin/vcheck run $prop --tier quick > /tmp/seed_$s.log 2>&1; rc=$?
  tier=quick
  if [ $rc -eq 0 ]; then
    VERIF_REPO=$W VERIF_EVIDENCE_DIR=$E ./bin/vcheck run $prop --tier thorough > /tmp/seed_$s.log 2>&1; rc=$?; tier=thorough
  fi
  git -C $W checkout -- .
  t1=$(date +%s)
  lab=$(grep -o 'replay=[^ ]*' /tmp/seed_$s.log | head -1 | sed 's#.*/##')
  line="$s property=$prop tier=$tier rc=$rc $(($t1-$t0))s $(grep -c '^VIOLATION' /tmp/seed_$s.log) violations, $(grep -c '^CHECK-BROKEN' /tmp/seed_$s.log) broken $lab"
  echo "$line"
  echo "$line" >> /verif/seeded/EVAL.txt   # log read by tools/seed_table.py (last line per seed wins)
done
git -C /repo worktree remove --force $W
rm -rf $E
