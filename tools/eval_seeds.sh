#!/bin/sh
# For every seeded mutation: apply it to /repo's working tree, run the quick (then, if
# quiet, the thorough) check of the property it breaks, restore the tree.
# usage: eval_seeds.sh [seed ids...]   (default: all under /verif/seeded)
cd /verif
SEEDS="$@"
[ -z "$SEEDS" ] && SEEDS=$(ls seeded)
for s in $SEEDS; do
  prop=$(python3 -c "import json;print(json.load(open('seeded/$s/meta.json'))['property'])")
  git -C /repo apply /verif/seeded/$s/patch.diff || { echo "$s APPLY-FAILED"; continue; }
  t0=$(date +%s)
  ./bin/vcheck run $prop --tier quick > /tmp/seed_$s.log 2>&1; rc=$?
  tier=quick
  if [ $rc -eq 0 ]; then
    ./bin/vcheck run $prop --tier thorough > /tmp/seed_$s.log 2>&1; rc=$?; tier=thorough
  fi
  git -C /repo checkout -- . 
  t1=$(date +%s)
  lab=$(grep -o 'replay=[^ ]*' /tmp/seed_$s.log | head -1 | sed 's#.*/##')
  echo "$s property=$prop tier=$tier rc=$rc $(($t1-$t0))s $(grep -c '^VIOLATION' /tmp/seed_$s.log) violations, $(grep -c '^CHECK-BROKEN' /tmp/seed_$s.log) broken $lab"
done
# evidence written while a mutation was applied is not evidence of the unchanged tree
git -C /verif checkout -- evidence
git -C /repo status --short | head -3
