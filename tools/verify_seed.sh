#!/bin/sh
# usage: verify_seed.sh <seed dir with patch.diff, demo test, demo_path.txt>
# Confirms in a scratch worktree: patch applies and builds; demo fails with it, passes without it.
set -u
export GOFLAGS=-mod=mod GOPROXY=off GOSUMDB=off GOTOOLCHAIN=local
S=$1
W=/tmp/wt/vs_$$
git -C /repo worktree add --detach $W HEAD -q || exit 2
cd $W
DP=$(cat $S/demo_path.txt | tr -d '\n ')
DEMO=$(ls $S/zz_demo_*_test.go | head -1)
PKG=./$(dirname $DP)
RUN=$(grep -o 'func Test[A-Za-z0-9_]*' $DEMO | sed 's/func //' | paste -sd'|')
git apply $S/patch.diff || { echo "PATCH-DOES-NOT-APPLY"; git -C /repo worktree remove --force $W; exit 1; }
go build ./... 2>&1 | tail -3
cp $DEMO $DP
go test -vet=off -count=1 -run "^($RUN)\$" $PKG > /tmp/vs_with_$$.log 2>&1; WITH=$?
git apply -R $S/patch.diff
go test -vet=off -count=1 -run "^($RUN)\$" $PKG > /tmp/vs_without_$$.log 2>&1; WITHOUT=$?
echo "seed=$S demo_with_patch_exit=$WITH demo_without_patch_exit=$WITHOUT"
tail -3 /tmp/vs_with_$$.log | cut -c1-200
cd /; git -C /repo worktree remove --force $W; rm -f /tmp/vs_with_$$.log /tmp/vs_without_$$.log
[ $WITH -ne 0 ] && [ $WITHOUT -eq 0 ] && echo "SEED-CONFIRMED $S" || echo "SEED-NOT-CONFIRMED $S"
