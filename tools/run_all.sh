#!/bin/sh
# Runs every registered quick (or $1 = thorough) check and summarises exit codes.
TIER=${1:-quick}
cd /verif
for id in $(python3 -c "import json;print(' '.join(c['property_id'] for c in json.load(open('MANIFEST.json'))['checks']))"); do
  s=$(date +%s)
  ./bin/vcheck run $id --tier $TIER > /tmp/runall_$id.log 2>&1
  rc=$?
  e=$(date +%s)
  echo "$id rc=$rc $(($e-$s))s $(grep -c '^KNOWN-FINDING' /tmp/runall_$id.log) known, $(grep -c '^VIOLATION' /tmp/runall_$id.log) violations, $(grep -c '^CHECK-BROKEN' /tmp/runall_$id.log) broken"
done
