#!/usr/bin/env python3
"""Rewrites the seed table of DESIGN.md (between the SEEDTABLE markers) from
/verif/seeded/*/meta.json and the evaluation log /verif/seeded/EVAL.txt
(lines printed by tools/eval_seeds.sh; the last line per seed wins)."""
import json, os, re
res = {}
for l in open('/verif/seeded/EVAL.txt'):
    m = re.match(r'(\S+) property=(\S+) tier=(\S+) rc=(\d+) (\d+)s (\d+) violations, (\d+) broken ?(.*)', l.strip())
    if m:
        res[m.group(1)] = m.groups()
rows = []
for s in sorted(d for d in os.listdir('/verif/seeded') if os.path.isdir('/verif/seeded/' + d)):
    m = json.load(open(f'/verif/seeded/{s}/meta.json'))
    summ = m['summary'].replace('\n', ' ').replace('|', '/')
    summ = summ[:230] + ('…' if len(summ) > 230 else '')
    r = res.get(s)
    if r:
        caught = ('**yes**, ' + r[2] + ' tier') if r[3] == '1' else '**no**'
        lab = re.sub(r'-[0-9a-f]{8}\.json$', '', r[7]).replace('VerifHarness_', '')
    else:
        caught, lab = 'not evaluated', ''
    rows.append(f"| {s} | {m['property']} | {summ} | {caught} | {lab} |")
tab = ("<!-- SEEDTABLE-BEGIN -->\n| seed | property | change (author's summary, shortened) | caught by the property's check | first violating harness / label |\n|---|---|---|---|---|\n"
       + "\n".join(rows) + "\n<!-- SEEDTABLE-END -->")
p = '/verif/DESIGN.md'
s = open(p).read()
if '<!-- SEEDTABLE-BEGIN -->' in s:
    s = re.sub(r'<!-- SEEDTABLE-BEGIN -->.*?<!-- SEEDTABLE-END -->', lambda _: tab, s, flags=re.S)
else:
    i = s.index('| seed | property | change')
    j = s.index('\n\n', i)
    s = s[:i] + tab + s[j:]
open(p, 'w').write(s)
print(len(rows), 'seeds;', sum(1 for r in rows if '**yes**' in r), 'caught;', sum(1 for r in rows if '**no**' in r), 'missed')
