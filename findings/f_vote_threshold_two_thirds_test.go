package tests

// Finding F3 (property C20).
//
// coreV2/minter/minter.go: isApplicationHalted, isUpdateCommissionsBlockV2 and
// isUpdateNetworkBlockV2 adopt a proposal when
//     big.Float(votedPower/totalPower) > big.NewFloat(2./3.)
// big.NewFloat takes a float64; float64(2/3) = 0.66666666666666663 is slightly BELOW
// 2/3 while the quotient is computed with >= 64 bits of precision, so a proposal backed
// by EXACTLY 2/3 of the voting power (2 of 3 equal validators) - and even slightly
// less - is adopted although the rule is "strictly more than 2/3".
//
// Usage: copy into <repo>/tests/ and run
//   go test -vet=off -count=1 -run 'TestVerifFinding_F3' ./tests/

import (
	"crypto/ecdsa"
	"math/big"
	"reflect"
	"testing"

	"github.com/MinterTeam/minter-go-node/coreV2/code"
	"github.com/MinterTeam/minter-go-node/coreV2/minter"
	"github.com/MinterTeam/minter-go-node/coreV2/transaction"
	"github.com/MinterTeam/minter-go-node/coreV2/types"
	"github.com/MinterTeam/minter-go-node/helpers"
)

type f3Val struct {
	addr types.Address
	pk   *ecdsa.PrivateKey
	pub  types.Pubkey
}

// f3App creates a chain with n validators with exactly equal total stakes.
func f3App(t *testing.T, n int) (*minter.Blockchain, []f3Val) {
	state := DefaultAppState()
	stake := helpers.BipToPip(big.NewInt(10000)).String()
	var vals []f3Val
	for i := 1; i <= n; i++ {
		addr, pk := CreateAddress()
		v := f3Val{addr: addr, pk: pk, pub: types.Pubkey{byte(i)}}
		vals = append(vals, v)
		state.Accounts = append(state.Accounts, types.Account{
			Address: addr,
			Balance: []types.Balance{{Coin: 0, Value: helpers.BipToPip(big.NewInt(1000)).String()}},
		})
		state.Validators = append(state.Validators, types.Validator{
			TotalBipStake: stake,
			PubKey:        v.pub,
			AccumReward:   "10",
			AbsentTimes:   types.NewBitArray(24),
		})
		state.Candidates = append(state.Candidates, types.Candidate{
			ID:             uint64(i),
			RewardAddress:  addr,
			OwnerAddress:   addr,
			ControlAddress: addr,
			TotalBipStake:  stake,
			PubKey:         v.pub,
			Commission:     10,
			Stakes:         []types.Stake{{Owner: addr, Coin: 0, Value: stake, BipValue: stake}},
			Status:         2,
		})
	}
	app := CreateApp(state)

	// precondition: all validators have exactly equal power
	vs := app.CurrentState().Validators().GetValidators()
	if len(vs) != n {
		t.Fatalf("expected %d validators, got %d", n, len(vs))
	}
	for _, v := range vs {
		if v.GetTotalBipStake().Cmp(vs[0].GetTotalBipStake()) != 0 {
			t.Fatalf("validators' stakes differ: %s vs %s", v.GetTotalBipStake(), vs[0].GetTotalBipStake())
		}
	}
	return app, vals
}

func f3CheckStillEqual(t *testing.T, app *minter.Blockchain) {
	vs := app.CurrentState().Validators().GetValidators()
	for _, v := range vs {
		if v.GetTotalBipStake().Cmp(vs[0].GetTotalBipStake()) != 0 {
			t.Fatalf("validators' stakes differ at evaluation time: %s vs %s", v.GetTotalBipStake(), vs[0].GetTotalBipStake())
		}
	}
}

// Network-update vote: 2 of 3 equal validators (exactly 2/3 of the power) vote.
func TestVerifFinding_F3_UpdateVote_ExactlyTwoThirds(t *testing.T) {
	app, vals := f3App(t, 3)

	SendBeginBlock(app, 1)
	for _, v := range vals[:2] {
		tx := CreateTx(app, v.addr, transaction.TypeVoteUpdate, transaction.VoteUpdateDataV230{
			PubKey:  v.pub,
			Height:  2,
			Version: "a",
		}, 0)
		if resp := SendTx(app, SignTx(v.pk, tx)); resp.Code != code.OK {
			t.Fatalf("vote tx rejected: %d %s", resp.Code, resp.Log)
		}
	}
	SendEndBlock(app, 1)
	SendCommit(app)

	f3CheckStillEqual(t, app)
	SendBeginBlock(app, 2)
	SendEndBlock(app, 2)
	SendCommit(app)

	current := ""
	for _, v := range app.UpdateVersions() {
		current = v.Name
	}
	if current == "a" {
		t.Fatalf("network update %q was adopted with exactly 2/3 (2 of 3 equal validators) of the voting power; the rule requires strictly more than 2/3", current)
	}
}

// Same, 4 of 6 equal validators.
func TestVerifFinding_F3_UpdateVote_FourOfSix(t *testing.T) {
	app, vals := f3App(t, 6)

	SendBeginBlock(app, 1)
	for _, v := range vals[:4] {
		tx := CreateTx(app, v.addr, transaction.TypeVoteUpdate, transaction.VoteUpdateDataV230{
			PubKey:  v.pub,
			Height:  2,
			Version: "a",
		}, 0)
		if resp := SendTx(app, SignTx(v.pk, tx)); resp.Code != code.OK {
			t.Fatalf("vote tx rejected: %d %s", resp.Code, resp.Log)
		}
	}
	SendEndBlock(app, 1)
	SendCommit(app)

	f3CheckStillEqual(t, app)
	SendBeginBlock(app, 2)
	SendEndBlock(app, 2)
	SendCommit(app)

	for _, v := range app.UpdateVersions() {
		if v.Name == "a" {
			t.Fatalf("network update %q was adopted with exactly 2/3 (4 of 6 equal validators) of the voting power", v.Name)
		}
	}
}

// Commission-price vote: 2 of 3 equal validators vote for a new price table.
func TestVerifFinding_F3_CommissionVote_ExactlyTwoThirds(t *testing.T) {
	app, vals := f3App(t, 3)

	oldSend := new(big.Int).Set(app.CurrentState().Commission().GetCommissions().Send)
	newSend := big.NewInt(77e15)
	if oldSend.Cmp(newSend) == 0 {
		t.Fatal("test precondition: new price equals old price")
	}

	SendBeginBlock(app, 1)
	for _, v := range vals[:2] {
		data := transaction.VoteCommissionDataV3{PubKey: v.pub, Height: 2, Coin: 0}
		rv := reflect.ValueOf(&data).Elem()
		for i := 0; i < rv.NumField(); i++ {
			if rv.Field(i).Type() == reflect.TypeOf((*big.Int)(nil)) {
				rv.Field(i).Set(reflect.ValueOf(big.NewInt(1e16)))
			}
		}
		data.Send = newSend
		tx := CreateTx(app, v.addr, transaction.TypeVoteCommission, data, 0)
		if resp := SendTx(app, SignTx(v.pk, tx)); resp.Code != code.OK {
			t.Fatalf("vote tx rejected: %d %s", resp.Code, resp.Log)
		}
	}
	SendEndBlock(app, 1)
	SendCommit(app)

	f3CheckStillEqual(t, app)
	SendBeginBlock(app, 2)
	SendEndBlock(app, 2)
	SendCommit(app)

	got := app.CurrentState().Commission().GetCommissions().Send
	if got.Cmp(newSend) == 0 {
		t.Fatalf("commission price table was replaced (Send %s -> %s) with exactly 2/3 (2 of 3 equal validators) of the voting power; the rule requires strictly more than 2/3", oldSend, got)
	}
}

// Control: 1 of 3 must not be enough (sanity check of the harness).
func TestVerifFinding_F3_Control_OneThird(t *testing.T) {
	app, vals := f3App(t, 3)
	SendBeginBlock(app, 1)
	v := vals[0]
	tx := CreateTx(app, v.addr, transaction.TypeVoteUpdate, transaction.VoteUpdateDataV230{PubKey: v.pub, Height: 2, Version: "a"}, 0)
	if resp := SendTx(app, SignTx(v.pk, tx)); resp.Code != code.OK {
		t.Fatalf("vote tx rejected: %d %s", resp.Code, resp.Log)
	}
	SendEndBlock(app, 1)
	SendCommit(app)
	SendBeginBlock(app, 2)
	SendEndBlock(app, 2)
	SendCommit(app)
	for _, v := range app.UpdateVersions() {
		if v.Name == "a" {
			t.Fatalf("update adopted with 1/3 of the power")
		}
	}
}
