package swap

// Finding F14 (property C25: read-only API queries served concurrently with
// block execution never crash the node).
//
// coreV2/state/swap/swapV2.go: SwapV2.swapPools (behind GetBestTradeExactIn /
// GetBestTradeExactOut, which the estimate API handlers call on the shared
// check state) and SwapV2.Export ranged over s.pairs without muPairs, while
// block execution adds entries to that map under muPairs.Lock (Pair, addPair:
// a pool created, or first touched, by a transaction).  A Go map iterated
// while another goroutine writes it makes the runtime abort the process
// ("fatal error: concurrent map iteration and map write").
// Found by VerifHarness_C25_MapRaces (solver: a schedule in which the two
// accesses coincide exists, the locks held being {} and {muPairs:w});
// confirmed by the Go race detector; repaired in commit 3059f2d.
//
// Usage: copy into <repo>/coreV2/state/swap/ and run
//   go test -vet=off -count=1 -run 'TestVerifFinding_F14' ./coreV2/state/swap/
// Before the fix the test process dies with the runtime's fatal error (the
// interleaving is up to the scheduler: the scenario is repeated to make that
// all but certain); with -race the detector names the two accesses, together
// with other, non-map data races of the module that are not this finding.

import (
	"context"
	"math/big"
	"sync"
	"testing"

	"github.com/MinterTeam/minter-go-node/coreV2/state/bus"
	"github.com/MinterTeam/minter-go-node/coreV2/state/checker"
	"github.com/MinterTeam/minter-go-node/coreV2/types"
	"github.com/MinterTeam/minter-go-node/tree"
	db "github.com/tendermint/tm-db"
)

func TestVerifFinding_F14_RouteSearchAndExportWhilePoolsAreCreated(t *testing.T) {
	for round := 0; round < 30; round++ {
		verifF14Round(t)
	}
}

func verifF14Round(t *testing.T) {
	mt, err := tree.NewMutableTree(0, db.NewMemDB(), 1024, 0)
	if err != nil {
		t.Fatal(err)
	}
	b := bus.NewBus()
	checker.NewChecker(b)
	s := NewV2(b, mt.GetLastImmutable())
	e18 := new(big.Int).Exp(big.NewInt(10), big.NewInt(18), nil)
	s.PairCreate(0, 1, new(big.Int).Mul(big.NewInt(4000), e18), new(big.Int).Mul(big.NewInt(6000), e18))
	if _, _, err := mt.Commit(s); err != nil {
		t.Fatal(err)
	}

	var wg sync.WaitGroup
	wg.Add(2)
	stop := make(chan struct{})
	go func() { // the API: estimate handlers and state export
		defer wg.Done()
		for {
			select {
			case <-stop:
				return
			default:
			}
			s.GetBestTradeExactIn(context.Background(), 1, 0, e18, 4)
			s.Export(&types.AppState{})
		}
	}()
	go func() { // block execution: transactions creating pools
		defer wg.Done()
		for c := types.CoinID(2); c < 200; c++ {
			s.PairCreate(0, c, new(big.Int).Mul(big.NewInt(300), e18), new(big.Int).Mul(big.NewInt(500), e18))
		}
		close(stop)
	}()
	wg.Wait()
}
