package tests

// Finding F4 (property C26).
//
// ExecutorV3.RunTx: when a delivered transaction fails for a state reason (here: Send
// of more base coin than the sender owns, while the balance covers the fee) the
// failed-transaction branch charges the failure fee but does NOT advance the sender's
// nonce. The identical signed bytes therefore stay valid for replay: every further
// delivery (a block proposer may include any bytes; nothing in DeliverTx remembers
// failed hashes) charges the fee again - in later blocks and even within one block.
//
// Usage: copy into <repo>/tests/ and run
//   go test -vet=off -count=1 -run 'TestVerifFinding_F4' ./tests/

import (
	"fmt"
	"math/big"
	"testing"

	"github.com/MinterTeam/minter-go-node/coreV2/minter"
	"github.com/MinterTeam/minter-go-node/coreV2/transaction"
	"github.com/MinterTeam/minter-go-node/coreV2/types"
	"github.com/MinterTeam/minter-go-node/helpers"
	tmTypes "github.com/tendermint/tendermint/abci/types"
)

func f4Deliver(app *minter.Blockchain, b []byte) (resp tmTypes.ResponseDeliverTx, err error) {
	defer func() {
		if r := recover(); r != nil {
			err = fmt.Errorf("DeliverTx panicked: %v", r)
		}
	}()
	return SendTx(app, b), nil
}

func f4Setup() (*minter.Blockchain, types.Address, []byte) {
	address, pk := CreateAddress()
	state := DefaultAppState()
	state.Accounts = append(state.Accounts, types.Account{
		Address: address,
		Balance: []types.Balance{{Coin: 0, Value: helpers.BipToPip(big.NewInt(1)).String()}}, // 1 BIP
	})
	app := CreateApp(state)
	recipient, _ := CreateAddress()
	tx := CreateTx(app, address, transaction.TypeSend, transaction.SendData{
		Coin:  types.GetBaseCoinID(),
		To:    recipient,
		Value: helpers.BipToPip(big.NewInt(100)), // 100 BIP > balance => InsufficientFunds
	}, types.GetBaseCoinID())
	return app, address, SignTx(pk, tx)
}

// the same bytes delivered in three consecutive blocks
func TestVerifFinding_F4_ReplayAcrossBlocks(t *testing.T) {
	app, address, txBytes := f4Setup()

	start := new(big.Int).Set(app.CurrentState().Accounts().GetBalance(address, 0))
	var balances []*big.Int
	var codes []uint32
	for h := int64(1); h <= 3; h++ {
		SendBeginBlock(app, h)
		resp, err := f4Deliver(app, txBytes)
		if err != nil {
			t.Fatal(err)
		}
		codes = append(codes, resp.Code)
		SendEndBlock(app, h)
		SendCommit(app)
		balances = append(balances, new(big.Int).Set(app.CurrentState().Accounts().GetBalance(address, 0)))
	}
	if codes[0] == 0 {
		t.Fatalf("test precondition: first delivery must fail for a state reason, got code 0")
	}
	if balances[0].Cmp(start) != -1 {
		t.Fatalf("test precondition: failure fee was not charged on first delivery (%s -> %s)", start, balances[0])
	}
	nonce := app.CurrentState().Accounts().GetNonce(address)
	decreases := 0
	prev := start
	for _, b := range balances {
		if b.Cmp(prev) == -1 {
			decreases++
		}
		prev = b
	}
	if decreases > 1 {
		t.Fatalf("identical signed bytes were charged %d times (codes %v): balance %s -> %s -> %s -> %s, sender nonce still %d; a failed transaction must not be replayable",
			decreases, codes, start, balances[0], balances[1], balances[2], nonce)
	}
}

// the same bytes delivered three times inside ONE block
func TestVerifFinding_F4_ReplayWithinBlock(t *testing.T) {
	app, address, txBytes := f4Setup()

	start := new(big.Int).Set(app.CurrentState().Accounts().GetBalance(address, 0))
	SendBeginBlock(app, 1)
	var codes []uint32
	for i := 0; i < 3; i++ {
		resp, err := f4Deliver(app, txBytes)
		if err != nil {
			t.Fatal(err)
		}
		codes = append(codes, resp.Code)
	}
	SendEndBlock(app, 1)
	SendCommit(app)
	end := app.CurrentState().Accounts().GetBalance(address, 0)

	fee := helpers.StringToBigInt(DefaultAppState().Commission.FailedTx)
	charged := new(big.Int).Sub(start, end)
	if charged.Cmp(fee) == 1 {
		t.Fatalf("identical signed bytes delivered 3x in one block (codes %v) were charged %s pip in total = %s x the failure fee %s; sender nonce still %d",
			codes, charged, new(big.Int).Div(charged, fee), fee, app.CurrentState().Accounts().GetNonce(address))
	}
}
