package tests

// Finding F9 (property C11).
//
// coreV2/state/state.go: State.Import restores every section of an exported
// AppState except HaltBlocks.  CheckState.Export writes the pending halt votes
// (height, candidate key) into the genesis, AppState.Verify accepts them, but a
// chain started from that genesis has no halt votes: its own export differs
// from the genesis it was started from, and a halt that 2/3 of the voting
// power had already voted for before the export never triggers.
//
// Usage: copy into <repo>/tests/ and run
//   go test -vet=off -count=1 -run 'TestVerifFinding_F9' ./tests/

import (
	"math/big"
	"testing"

	"github.com/MinterTeam/minter-go-node/coreV2/types"
	"github.com/MinterTeam/minter-go-node/helpers"
)

func f9State() types.AppState {
	state := DefaultAppState()
	stake := helpers.BipToPip(big.NewInt(1000)).String()
	owner := types.Address{1}
	state.Validators = append(state.Validators, types.Validator{TotalBipStake: stake, PubKey: types.Pubkey{1}, AccumReward: "10", AbsentTimes: types.NewBitArray(24)})
	state.Candidates = append(state.Candidates, types.Candidate{
		ID: 1, RewardAddress: owner, OwnerAddress: owner, ControlAddress: owner, TotalBipStake: stake, PubKey: types.Pubkey{1}, Commission: 10,
		Stakes: []types.Stake{{Owner: owner, Coin: 0, Value: stake, BipValue: stake}}, Status: 2,
	})
	return state
}

func TestVerifFinding_F9_HaltVotesLostOnImport(t *testing.T) {
	state := f9State()
	key := state.Validators[0].PubKey
	state.HaltBlocks = []types.HaltBlock{{Height: 500, CandidateKey: key}}
	if err := state.Verify(); err != nil {
		t.Fatalf("genesis does not verify: %v", err)
	}

	app := CreateApp(state) // InitChain imports the genesis
	SendBeginBlock(app, 1)
	SendEndBlock(app, 1)
	SendCommit(app)

	if !app.CurrentState().Halts().IsHaltExists(500, key) {
		t.Errorf("halt vote (height 500) of the genesis is not in the imported state")
	}
	exported := app.CurrentState().Export()
	if len(exported.HaltBlocks) != 1 {
		t.Fatalf("export of the imported chain has %d halt votes, the genesis had 1", len(exported.HaltBlocks))
	}
	if exported.HaltBlocks[0] != state.HaltBlocks[0] {
		t.Errorf("halt vote changed: %+v -> %+v", state.HaltBlocks[0], exported.HaltBlocks[0])
	}
}
