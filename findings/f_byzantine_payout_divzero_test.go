package tests

// Finding F6 (properties C07, C19).
//
// Byzantine evidence delivered in BeginBlock of a block whose height is a reward
// payout height (height % updateStakePeriod == 0): PunishByzantineValidator zeroes
// the validator's total stake, and the same block's EndBlock (accumulate rewards /
// PayRewards) still iterates over that validator and divides by its total stake
// => "division by zero" panic in EndBlock, i.e. the whole network halts on a block
// that merely carries duplicate-vote evidence.
//
// tests/byz_test.go only delivers the evidence at height 1 (not a payout height).
//
// Usage: copy into <repo>/tests/ and run
//   go test -vet=off -count=1 -run 'TestVerifFinding_F6' ./tests/

import (
	"fmt"
	"math/big"
	"runtime/debug"
	"strings"
	"testing"

	"github.com/MinterTeam/minter-go-node/coreV2/minter"
	"github.com/MinterTeam/minter-go-node/coreV2/types"
	"github.com/MinterTeam/minter-go-node/helpers"
	tmTypes "github.com/tendermint/tendermint/abci/types"
	"github.com/tendermint/tendermint/crypto/ed25519"
	tmTypes1 "github.com/tendermint/tendermint/proto/tendermint/types"
)

func f6NoPanic(name string, f func()) (err error) {
	defer func() {
		if r := recover(); r != nil {
			var where []string
			for _, l := range strings.Split(string(debug.Stack()), "\n") {
				if strings.Contains(l, "/coreV2/") && strings.HasPrefix(l, "\t") && len(where) < 3 {
					where = append(where, strings.TrimSpace(l))
				}
			}
			err = fmt.Errorf("%s panicked: %v at %s", name, r, strings.Join(where, " <- "))
		}
	}()
	f()
	return nil
}

func f6State(nValidators int) types.AppState {
	state := DefaultAppState()
	stake := helpers.BipToPip(big.NewInt(1000)).String()
	for i := 1; i <= nValidators; i++ {
		owner := types.Address{byte(i)}
		state.Validators = append(state.Validators, types.Validator{
			TotalBipStake: stake,
			PubKey:        types.Pubkey{byte(i)},
			AccumReward:   "10",
			AbsentTimes:   nil,
		})
		state.Candidates = append(state.Candidates, types.Candidate{
			ID:             uint64(i),
			RewardAddress:  owner,
			OwnerAddress:   owner,
			ControlAddress: owner,
			TotalBipStake:  stake,
			PubKey:         types.Pubkey{byte(i)},
			Commission:     10,
			Stakes: []types.Stake{
				{Owner: owner, Coin: 0, Value: stake, BipValue: stake},
			},
			Status: 2,
		})
	}
	return state
}

func f6BeginBlockWithEvidence(app *minter.Blockchain, height int64, byzPub [32]byte) {
	var voteInfos []tmTypes.VoteInfo
	validators := app.CurrentState().Validators().GetValidators()
	for _, validator := range validators {
		address := validator.GetAddress()
		voteInfos = append(voteInfos, tmTypes.VoteInfo{
			Validator:       tmTypes.Validator{Address: address[:], Power: int64(100 / len(validators))},
			SignedLastBlock: true,
		})
	}
	var address types.TmAddress
	copy(address[:], ed25519.PubKey(byzPub[:]).Address().Bytes())
	app.BeginBlock(tmTypes.RequestBeginBlock{
		Header:         tmTypes1.Header{Height: height},
		LastCommitInfo: tmTypes.LastCommitInfo{Votes: voteInfos},
		ByzantineValidators: []tmTypes.Evidence{{
			Type:      tmTypes.EvidenceType_DUPLICATE_VOTE,
			Validator: tmTypes.Validator{Address: address[:], Power: 10},
			Height:    height - 1,
		}},
	})
}

func f6Run(t *testing.T, nValidators int, evidenceHeight int64) {
	app := CreateApp(f6State(nValidators))

	for h := int64(1); h < evidenceHeight; h++ {
		SendBeginBlock(app, h)
		SendEndBlock(app, h)
		SendCommit(app)
	}

	if err := f6NoPanic("BeginBlock", func() { f6BeginBlockWithEvidence(app, evidenceHeight, [32]byte{1}) }); err != nil {
		t.Fatalf("height %d: %v", evidenceHeight, err)
	}
	if err := f6NoPanic("EndBlock", func() { SendEndBlock(app, evidenceHeight) }); err != nil {
		t.Fatalf("height %d (payout height, evidence against validator 1 in the same block): %v", evidenceHeight, err)
	}
	if err := f6NoPanic("Commit", func() { SendCommit(app) }); err != nil {
		t.Fatalf("height %d: %v", evidenceHeight, err)
	}

	candidate := app.CurrentState().Candidates().GetCandidate([32]byte{1})
	if candidate == nil {
		t.Fatal("candidate does not exist")
	}
	if candidate.GetTotalBipStake().Sign() != 0 {
		t.Fatalf("punished candidate total stake is %s, want 0", candidate.GetTotalBipStake())
	}
}

// single validator, evidence at payout height 2
func TestVerifFinding_F6_SingleValidator(t *testing.T) { f6Run(t, 1, 2) }

// three validators (network keeps >2/3 honest power), evidence against one at payout height 2
func TestVerifFinding_F6_ThreeValidators(t *testing.T) { f6Run(t, 3, 2) }

// control: the same scenario at a non-payout height (3) must pass
func TestVerifFinding_F6_ControlNonPayoutHeight(t *testing.T) { f6Run(t, 3, 3) }
