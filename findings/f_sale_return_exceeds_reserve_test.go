package formula

// Finding F13 (property C12: "bancor sale returns ... never exceed the reserve",
// for all supplies, reserves and amounts up to 10^33 pip).
//
// formula/formula.go: CalculateSaleReturn converts the reserve to a 100-bit
// big.Float.  A reserve above 2^100 pip does not fit; SetInt rounds it to
// nearest-even, possibly upwards.  When almost the whole supply is sold the
// curve factor 1 - (1 - amount/supply)^(100/crr) rounds to exactly 1 and the
// function returned the rounded reserve, i.e. more than the coin holds.
// Found by VerifHarness_C12_NearTotalSaleRounded (solver model: reserve =
// 10^33 - 512); repaired by capping the result at the reserve (commit d94176c).
// Reserves of that size exceed the BIP emission cap, so on the main network the
// case is reachable only for coins defined by a genesis file.
//
// Usage: copy into <repo>/formula/ and run
//   go test -vet=off -count=1 -run 'TestVerifFinding_F13' ./formula/

import (
	"math/big"
	"testing"
)

func TestVerifFinding_F13_SaleReturnNeverExceedsReserve(t *testing.T) {
	supply := new(big.Int).Exp(big.NewInt(10), big.NewInt(33), nil)
	amount := new(big.Int).Sub(supply, big.NewInt(1))
	two100 := new(big.Int).Lsh(big.NewInt(1), 100)
	reserves := []*big.Int{
		new(big.Int).Add(two100, big.NewInt(3)),
		new(big.Int).Sub(supply, big.NewInt(512)),
		new(big.Int).Sub(supply, big.NewInt(1)),
	}
	for _, reserve := range reserves {
		for _, crr := range []uint32{10, 33, 50, 99} {
			got := CalculateSaleReturn(supply, reserve, crr, amount)
			if got.Cmp(reserve) > 0 {
				t.Errorf("CalculateSaleReturn(10^33, %s, %d, 10^33-1) = reserve + %s", reserve, crr, new(big.Int).Sub(got, reserve))
			}
		}
	}
}
