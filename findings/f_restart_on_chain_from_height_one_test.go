package tests

// Finding F15 (properties C09 and C29), open.
//
// Blockchain.InitChain computes initialHeight = InitialHeight - 1 and hands it to
// the state tree as IAVL's InitialVersion.  For a genesis with initial_height 1
// (Tendermint's default) that is 0, which IAVL reads as "unset": the genesis
// commit becomes tree version 1 and the commit of block h becomes version h+1,
// while the app DB records height h.  Everything that maps a height to a tree
// version is then one block behind:
//   - a restarted node (initState loads version = last height) works from the
//     state *before* its last committed block (C09);
//   - AppDB.Snapshot(h) exports version h, i.e. the state of block h-1, under
//     the height and app hash of block h (C29).
// Chains whose genesis has initial_height >= 2 (the main network) are not
// affected: there the genesis commit is version initial_height-1.
// Found by VerifHarness_Node_FirstBlockThenRestartOrSync (config initial=0).
// Not repaired: the height/version offset would have to be carried through
// initState, NewCheckStateAtHeight, Snapshot/Restore and pruning.
//
// Usage: copy into <repo>/tests/ and run
//   go test -vet=off -count=1 -run 'TestVerifFinding_F15' ./tests/
// (the first test fails while the defect is present; the control with
// initial_height 10 passes).

import (
	"math/big"
	"testing"
	"time"

	"github.com/MinterTeam/minter-go-node/cmd/utils"
	"github.com/MinterTeam/minter-go-node/config"
	"github.com/MinterTeam/minter-go-node/coreV2/code"
	"github.com/MinterTeam/minter-go-node/coreV2/minter"
	"github.com/MinterTeam/minter-go-node/coreV2/transaction"
	"github.com/MinterTeam/minter-go-node/coreV2/types"
	"github.com/MinterTeam/minter-go-node/helpers"
	"github.com/tendermint/go-amino"
	tmTypes "github.com/tendermint/tendermint/abci/types"
	tmproto "github.com/tendermint/tendermint/proto/tendermint/types"
)

func f15Run(t *testing.T, initialHeight int64) (before, after *big.Int) {
	sender, pk := CreateAddress()
	recipient, _ := CreateAddress()
	state := DefaultAppState()
	state.Accounts = append(state.Accounts, types.Account{
		Address: sender,
		Balance: []types.Balance{{Coin: 0, Value: helpers.BipToPip(big.NewInt(1000)).String()}},
	})
	jsonState, err := amino.MarshalJSON(state)
	if err != nil {
		t.Fatal(err)
	}
	home := t.TempDir()
	storage := utils.NewStorage(home, "") // state DB in memory: it survives the "restart"
	cfg := config.GetConfig(home)
	cfg.DBBackend = "goleveldb" // app DB on disk, reopened on restart
	app := minter.NewMinterBlockchain(storage, cfg, nil, updateStakePeriod, expiredOrdersPeriod, nil)
	app.InitChain(tmTypes.RequestInitChain{Time: time.Unix(1600000000, 0), ChainId: "test", InitialHeight: initialHeight, AppStateBytes: jsonState})

	h := initialHeight
	SendBeginBlock(app, h)
	tx := CreateTx(app, sender, transaction.TypeSend, transaction.SendData{Coin: 0, To: recipient, Value: helpers.BipToPip(big.NewInt(10))}, 0)
	if resp := SendTx(app, SignTx(pk, tx)); resp.Code != code.OK {
		t.Fatalf("send not delivered: %s", resp.Log)
	}
	SendEndBlock(app, h)
	SendCommit(app)
	before = new(big.Int).Set(app.CurrentState().Accounts().GetBalance(recipient, 0))

	// stop the node and start it again over the same databases
	if err := app.Close(); err != nil {
		t.Fatal(err)
	}
	app = minter.NewMinterBlockchain(storage, cfg, nil, updateStakePeriod, expiredOrdersPeriod, nil)
	if info := app.Info(tmTypes.RequestInfo{}); info.LastBlockHeight != h {
		t.Fatalf("restarted node reports height %d, want %d", info.LastBlockHeight, h)
	}
	// the restarted node initialises its state in BeginBlock at the latest (with a
	// start height of 0 on disk NewMinterBlockchain does not, so until then it has
	// no state at all and the helper SendBeginBlock, which queries it first, crashes)
	if app.CurrentState() == nil {
		app.BeginBlock(tmTypes.RequestBeginBlock{Header: tmproto.Header{Height: h + 1, Time: time.Unix(1600000010, 0)}})
	} else {
		SendBeginBlock(app, h+1)
	}
	after = new(big.Int).Set(app.CurrentState().Accounts().GetBalance(recipient, 0))
	return before, after
}

func TestVerifFinding_F15_RestartOnChainFromHeightOne(t *testing.T) {
	before, after := f15Run(t, 1)
	if before.Cmp(after) != 0 {
		t.Fatalf("the block committed before the restart is gone: recipient had %s, the restarted node sees %s", before, after)
	}
}

func TestVerifFinding_F15_ControlChainFromHeightTen(t *testing.T) {
	before, after := f15Run(t, 10)
	if before.Cmp(after) != 0 {
		t.Fatalf("recipient had %s, the restarted node sees %s", before, after)
	}
}
