package candidates

// Finding F16 (property C25).
//
// coreV2/state/candidates/candidates.go: Candidates.loadStakes (behind
// LoadStakes, which the address API handlers and Export call on the shared
// check state) ranged over c.pubKeyIDs with the module lock commented out,
// while block execution registers new candidates in that map under c.lock
// (Create -> setPubKeyID).  Predicted by VerifHarness_C25_MapRaces in four
// configurations (the locks held at the two accesses: {} and {lock:w}); the
// race detector did not observe it in the harness runs (the block step writes
// the map once, at its very start), so the check listed it as inconclusive;
// this focused reproduction shows the runtime's fatal error directly.
// Repaired in commit 6ec67b1.
//
// Usage: copy into <repo>/coreV2/state/candidates/ and run
//   go test -vet=off -count=1 -run 'TestVerifFinding_F16' ./coreV2/state/candidates/
// Before the fix the test process dies with "fatal error: concurrent map
// iteration and map write" in most runs (the scenario is repeated 30 times).

import (
	"sync"
	"testing"

	eventsdb "github.com/MinterTeam/minter-go-node/coreV2/events"
	"github.com/MinterTeam/minter-go-node/coreV2/state/bus"
	"github.com/MinterTeam/minter-go-node/coreV2/state/checker"
	"github.com/MinterTeam/minter-go-node/coreV2/types"
	"github.com/MinterTeam/minter-go-node/tree"
	db "github.com/tendermint/tm-db"
)

func TestVerifFinding_F16_LoadStakesWhileCandidatesAreDeclared(t *testing.T) {
	for round := 0; round < 30; round++ {
		mutableTree, _ := tree.NewMutableTree(0, db.NewMemDB(), 1024, 0)
		b := bus.NewBus()
		b.SetValidators(&mockValisators{})
		b.SetChecker(checker.NewChecker(b))
		b.SetEvents(eventsdb.NewEventsStore(db.NewMemDB()))
		c := NewCandidates(b, mutableTree.GetLastImmutable())
		for k := 0; k < 20; k++ {
			var pk types.Pubkey
			pk[0], pk[1] = 1, byte(k)
			c.Create([20]byte{1}, [20]byte{2}, [20]byte{3}, pk, 10, 0, 0)
		}
		if _, _, err := mutableTree.Commit(c); err != nil {
			t.Fatal(err)
		}
		var wg sync.WaitGroup
		wg.Add(2)
		stop := make(chan struct{})
		go func() { // the API: address handlers load all stakes
			defer wg.Done()
			for {
				select {
				case <-stop:
					return
				default:
				}
				c.LoadStakes()
			}
		}()
		go func() { // block execution: candidates being declared
			defer wg.Done()
			for k := 0; k < 200; k++ {
				var pk types.Pubkey
				pk[0], pk[1] = 2, byte(k)
				c.Create([20]byte{1}, [20]byte{2}, [20]byte{3}, pk, 10, 0, 0)
			}
			close(stop)
		}()
		wg.Wait()
	}
}
