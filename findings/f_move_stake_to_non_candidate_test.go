package tests

// Finding F5 (properties C16, C07).
//
// coreV2/transaction/move_stake.go: MoveStakeData.basicCheck never checks that
// ToPubKey is an existing candidate. A MoveStake to an arbitrary (non-candidate)
// public key is accepted with code 0; Candidates.ID(ToPubKey) is 0 so the frozen fund
// is stored with MoveToCandidateID = 0, which BeginBlock interprets as a plain unbond:
// after the MOVE period (134400 blocks on mainnet) instead of the UNBOND period
// (518400 blocks) the stake is credited to the owner's liquid balance. MoveStake to a
// bogus key is thus a ~4x faster unbond (and escapes slashing exposure earlier).
//
// Variant (b): a move to an existing candidate Q that is removed (candidate list
// overflow > 100 at the next stake recalculation) before the move matures: at maturity
// BeginBlock calls Candidates.Delegate on the deleted candidate => nil dereference.
//
// Usage: copy into <repo>/tests/ and run
//   go test -vet=off -count=1 -run 'TestVerifFinding_F5' ./tests/

import (
	"fmt"
	"math/big"
	"runtime/debug"
	"strings"
	"testing"

	"github.com/MinterTeam/minter-go-node/coreV2/minter"
	"github.com/MinterTeam/minter-go-node/coreV2/transaction"
	"github.com/MinterTeam/minter-go-node/coreV2/types"
	"github.com/MinterTeam/minter-go-node/helpers"
)

func f5NoPanic(name string, f func()) (err error) {
	defer func() {
		if r := recover(); r != nil {
			var where []string
			for _, l := range strings.Split(string(debug.Stack()), "\n") {
				if strings.Contains(l, "/coreV2/") && strings.HasPrefix(l, "\t") && len(where) < 3 {
					where = append(where, strings.TrimSpace(l))
				}
			}
			err = fmt.Errorf("%s panicked: %v at %s", name, r, strings.Join(where, " <- "))
		}
	}()
	f()
	return nil
}

func f5Block(t *testing.T, app *minter.Blockchain, h int64) {
	if err := f5NoPanic(fmt.Sprintf("BeginBlock(%d)", h), func() { SendBeginBlock(app, h) }); err != nil {
		t.Fatal(err)
	}
	if err := f5NoPanic(fmt.Sprintf("EndBlock(%d)", h), func() { SendEndBlock(app, h) }); err != nil {
		t.Fatal(err)
	}
	if err := f5NoPanic(fmt.Sprintf("Commit(%d)", h), func() { SendCommit(app) }); err != nil {
		t.Fatal(err)
	}
}

// (a) MoveStake to a public key that is not a candidate must be rejected.
func TestVerifFinding_F5_MoveToNonCandidate(t *testing.T) {
	delegator, pk := CreateAddress()

	state := DefaultAppState()
	valStake := helpers.BipToPip(big.NewInt(10000))
	delStake := helpers.BipToPip(big.NewInt(500))
	total := new(big.Int).Add(valStake, delStake)
	state.Validators = []types.Validator{{
		TotalBipStake: total.String(), PubKey: types.Pubkey{1}, AccumReward: "0", AbsentTimes: types.NewBitArray(24),
	}}
	state.Candidates = []types.Candidate{{
		ID: 1, RewardAddress: types.Address{1}, OwnerAddress: types.Address{1}, ControlAddress: types.Address{1},
		TotalBipStake: total.String(), PubKey: types.Pubkey{1}, Commission: 5,
		Stakes: []types.Stake{
			{Owner: types.Address{1}, Coin: 0, Value: valStake.String(), BipValue: valStake.String()},
			{Owner: delegator, Coin: 0, Value: delStake.String(), BipValue: delStake.String()},
		},
		Status: 2,
	}}
	liquid := helpers.BipToPip(big.NewInt(10))
	state.Accounts = append(state.Accounts, types.Account{
		Address: delegator,
		Balance: []types.Balance{{Coin: 0, Value: liquid.String()}},
	})

	app := CreateApp(state)
	bogus := types.Pubkey{0xde, 0xad, 0xbe, 0xef}
	if app.CurrentState().Candidates().Exists(bogus) {
		t.Fatal("test precondition: bogus key is a candidate")
	}

	SendBeginBlock(app, 1)
	tx := CreateTx(app, delegator, transaction.TypeMoveStake, transaction.MoveStakeData{
		FromPubKey: types.Pubkey{1},
		ToPubKey:   bogus,
		Coin:       0,
		Value:      delStake,
	}, 0)
	resp := SendTx(app, SignTx(pk, tx))
	SendEndBlock(app, 1)
	SendCommit(app)

	if resp.Code != 0 {
		t.Logf("MoveStake to a non-candidate rejected with code %d: %s", resp.Code, resp.Log)
		return // correct behaviour
	}
	t.Errorf("MoveStake to non-candidate public key %s was ACCEPTED (code 0)", bogus.String())

	// consequence: the stake becomes liquid after the (short) move period
	movePeriod, unbondPeriod := types.GetMovePeriod(), types.GetUnbondPeriod()
	afterFee := new(big.Int).Set(app.CurrentState().Accounts().GetBalance(delegator, 0))
	maturity := int64(1 + movePeriod)
	f5Block(t, app, maturity)
	got := app.CurrentState().Accounts().GetBalance(delegator, 0)
	if new(big.Int).Sub(got, afterFee).Cmp(delStake) == 0 {
		t.Errorf("at height %d (= 1 + move period %d; unbond period is %d) the whole moved stake %s was credited to the delegator's liquid balance (%s -> %s): stake left staking %d blocks earlier than an unbond allows",
			maturity, movePeriod, unbondPeriod, delStake, afterFee, got, unbondPeriod-movePeriod)
	} else {
		t.Logf("balance at maturity: %s -> %s", afterFee, got)
	}
}

// (b) MoveStake to an existing candidate that is deleted before the move matures.
func TestVerifFinding_F5_MoveToCandidateDeletedBeforeMaturity(t *testing.T) {
	delegator, pk := CreateAddress()

	state := DefaultAppState()
	valStake := helpers.BipToPip(big.NewInt(10000))
	delStake := helpers.BipToPip(big.NewInt(500))
	total := new(big.Int).Add(valStake, delStake)
	state.Validators = []types.Validator{{
		TotalBipStake: total.String(), PubKey: types.Pubkey{1}, AccumReward: "0", AbsentTimes: types.NewBitArray(24),
	}}
	state.Candidates = []types.Candidate{{
		ID: 1, RewardAddress: types.Address{1}, OwnerAddress: types.Address{1}, ControlAddress: types.Address{1},
		TotalBipStake: total.String(), PubKey: types.Pubkey{1}, Commission: 5,
		Stakes: []types.Stake{
			{Owner: types.Address{1}, Coin: 0, Value: valStake.String(), BipValue: valStake.String()},
			{Owner: delegator, Coin: 0, Value: delStake.String(), BipValue: delStake.String()},
		},
		Status: 2,
	}}
	// candidates 2..100 (100 in total, the maximum that survives a recalculation);
	// candidate 100 ("Q") has the lowest stake. A 101st candidate is declared in block 1,
	// so Q is removed by RecalculateStakesV2 (keeps the top 100) at height 2.
	for i := 2; i <= 100; i++ {
		st := helpers.BipToPip(big.NewInt(int64(5000 - i)))
		owner := types.Address{byte(i), 0xcc}
		state.Candidates = append(state.Candidates, types.Candidate{
			ID: uint64(i), RewardAddress: owner, OwnerAddress: owner, ControlAddress: owner,
			TotalBipStake: st.String(), PubKey: types.Pubkey{byte(i), 0xcc}, Commission: 5,
			Stakes: []types.Stake{{Owner: owner, Coin: 0, Value: st.String(), BipValue: st.String()}},
			Status: 1, // offline: never becomes a validator
		})
	}
	q := types.Pubkey{100, 0xcc}
	newcomer, newcomerPk := CreateAddress()
	state.Accounts = append(state.Accounts, types.Account{
		Address: newcomer,
		Balance: []types.Balance{{Coin: 0, Value: helpers.BipToPip(big.NewInt(100000)).String()}},
	})
	state.Accounts = append(state.Accounts, types.Account{
		Address: delegator,
		Balance: []types.Balance{{Coin: 0, Value: helpers.BipToPip(big.NewInt(10)).String()}},
	})

	app := CreateApp(state)
	if !app.CurrentState().Candidates().Exists(q) {
		t.Fatal("test precondition: Q is not a candidate at genesis")
	}

	SendBeginBlock(app, 1)
	tx := CreateTx(app, delegator, transaction.TypeMoveStake, transaction.MoveStakeData{
		FromPubKey: types.Pubkey{1},
		ToPubKey:   q,
		Coin:       0,
		Value:      big.NewInt(1e18), // 1 BIP: keeps Q the lowest-staked candidate anyway (move is pending)
	}, 0)
	resp := SendTx(app, SignTx(pk, tx))
	if resp.Code != 0 {
		t.Fatalf("test precondition: MoveStake to existing candidate Q rejected: %d %s", resp.Code, resp.Log)
	}
	{
		tx := CreateTx(app, newcomer, transaction.TypeDeclareCandidacy, transaction.DeclareCandidacyData{
			Address:    newcomer,
			PubKey:     types.Pubkey{0xee, 0xee},
			Commission: 10,
			Coin:       0,
			Stake:      helpers.BipToPip(big.NewInt(50000)),
		}, 0)
		if resp := SendTx(app, SignTx(newcomerPk, tx)); resp.Code != 0 {
			t.Fatalf("test precondition: DeclareCandidacy rejected: %d %s", resp.Code, resp.Log)
		}
	}
	SendEndBlock(app, 1)
	SendCommit(app)

	f5Block(t, app, 2) // stake recalculation: 101 candidates -> Q removed
	if app.CurrentState().Candidates().Exists(q) {
		t.Skip("Q was not removed at the recalculation height; scenario (b) not reachable with this genesis")
	}

	before := new(big.Int).Set(app.CurrentState().Accounts().GetBalance(delegator, 0))
	maturity := int64(1 + types.GetMovePeriod())
	if err := f5NoPanic(fmt.Sprintf("BeginBlock(%d)", maturity), func() { SendBeginBlock(app, maturity) }); err != nil {
		t.Fatalf("pending stake move to candidate Q, Q removed at height 2, move matures at height %d: %v", maturity, err)
	}
	SendEndBlock(app, maturity)
	SendCommit(app)
	after := app.CurrentState().Accounts().GetBalance(delegator, 0)
	t.Logf("no panic; delegator liquid balance %s -> %s", before, after)
}
