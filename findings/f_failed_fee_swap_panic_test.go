package tests

// Finding F1 (properties C07, C03).
//
// ExecutorV3.RunTx, failed-transaction fee branch: when the payer's balance of a
// custom gas coin (converted through the (gasCoin, base) swap pool) is smaller than
// the failure fee, commission is clamped to the balance and
// Swapper().PairSellWithOrders(gasCoin, base, commission, 0) is executed WITHOUT
// re-validating the swap (CheckSwap is only run when the price-table coin is not the
// base coin). For dust balances the pair panics (INSUFFICIENT_INPUT_AMOUNT /
// INSUFFICIENT_OUTPUT_AMOUNT) inside DeliverTx, i.e. one signed transaction halts
// every node that processes the block.
//
// Usage: copy into <repo>/tests/ and run
//   go test -vet=off -count=1 -run 'TestVerifFinding_F1' ./tests/

import (
	"fmt"
	"math/big"
	"testing"

	"github.com/MinterTeam/minter-go-node/coreV2/minter"
	"github.com/MinterTeam/minter-go-node/coreV2/transaction"
	"github.com/MinterTeam/minter-go-node/coreV2/types"
	tmTypes "github.com/tendermint/tendermint/abci/types"
)

// f1DeliverNoPanic runs DeliverTx and converts a panic into an error.
func f1DeliverNoPanic(app *minter.Blockchain, txBytes []byte) (resp tmTypes.ResponseDeliverTx, err error) {
	defer func() {
		if r := recover(); r != nil {
			err = fmt.Errorf("%v", r)
		}
	}()
	resp = SendTx(app, txBytes)
	return
}

func f1Run(t *testing.T, poolBase, poolCustom, customBalance string) {
	address, pk := CreateAddress()
	holder, _ := CreateAddress()

	state := DefaultAppState() // price table is in base coin (Commission.Coin = 0), FailedTx = 1e16

	supply := "1000000000000000000000000000" // 1e27
	state.Coins = append(state.Coins, types.Coin{
		ID:        1,
		Name:      "aaa",
		Symbol:    types.StrToCoinBaseSymbol("AAA"),
		Volume:    supply,
		Crr:       0,
		Reserve:   "0",
		MaxSupply: supply,
	})
	state.Pools = append(state.Pools, types.Pool{
		Coin0:    0,
		Coin1:    1,
		Reserve0: poolBase,
		Reserve1: poolCustom,
		ID:       1,
	})
	rest := new(big.Int)
	rest.SetString(supply, 10)
	pc, _ := new(big.Int).SetString(poolCustom, 10)
	cb, _ := new(big.Int).SetString(customBalance, 10)
	rest.Sub(rest, pc).Sub(rest, cb)
	state.Accounts = append(state.Accounts,
		types.Account{
			Address: address,
			Balance: []types.Balance{{Coin: 1, Value: customBalance}},
		},
		types.Account{
			Address: holder,
			Balance: []types.Balance{{Coin: 1, Value: rest.String()}},
		},
	)

	app := CreateApp(state)
	SendBeginBlock(app, 1)

	recipient, _ := CreateAddress()
	tx := CreateTx(app, address, transaction.TypeSend, transaction.SendData{
		Coin:  types.GetBaseCoinID(),
		To:    recipient,
		Value: big.NewInt(100), // sender owns no base coin => state-reason failure
	}, types.CoinID(1))

	resp, err := f1DeliverNoPanic(app, SignTx(pk, tx))
	if err != nil {
		t.Fatalf("DeliverTx panicked: %v (a rejected Send whose fee is paid from a dust balance of a pool-convertible gas coin must be answered with an error code, not crash the node)", err)
	}
	if resp.Code == 0 {
		t.Fatalf("Send of unowned coins unexpectedly succeeded")
	}
	t.Logf("no panic; response code %d, log %q", resp.Code, resp.Log)
}

// balance = 1 pip: amount minus ceil(0.1%) fee is 0 => INSUFFICIENT_INPUT_AMOUNT (or output 0).
func TestVerifFinding_F1_OnePip(t *testing.T) {
	f1Run(t, "1000000000000000000000000", "1000000000000000000000000", "1")
}

// balance = 1000 pip (> 1 pip) but the custom coin is so cheap that the pool output
// rounds to 0 base pip => INSUFFICIENT_OUTPUT_AMOUNT.
func TestVerifFinding_F1_ZeroOutput(t *testing.T) {
	f1Run(t, "1000000000000000000000", "100000000000000000000000000", "1000")
}
