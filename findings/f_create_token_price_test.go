package tests

// Finding F11 (property C27).
//
// coreV2/transaction/create_token.go: CreateTokenData.CommissionData adds the
// ticker fee to price.CreateCoin instead of price.CreateToken, so a CreateToken
// transaction is charged the price-table entry of another transaction type
// (CreateCoin charges CreateCoin, RecreateToken charges RecreateToken).
//
// Finding F12 (properties C03, C06), second test: ExecutorV3.RunTx computes the
// ticker fee to burn *after* Run has created the coin and advanced the nonce,
// and returns code CommissionCoinNotSufficient when that fee is not positive.
// With a price table whose ticker entry is zero the delivery is reported as
// rejected although all its effects were applied; CheckTx accepts the same bytes.
//
// Usage: copy into <repo>/tests/ and run
//   go test -vet=off -count=1 -run 'TestVerifFinding_F1[12]' ./tests/

import (
	"math/big"
	"testing"

	"github.com/MinterTeam/minter-go-node/coreV2/code"
	"github.com/MinterTeam/minter-go-node/coreV2/transaction"
	"github.com/MinterTeam/minter-go-node/coreV2/types"
	"github.com/MinterTeam/minter-go-node/helpers"
)

func f11State(owner types.Address) types.AppState {
	state := DefaultAppState()
	stake := helpers.BipToPip(big.NewInt(1000)).String()
	v := types.Address{1}
	state.Validators = append(state.Validators, types.Validator{TotalBipStake: stake, PubKey: types.Pubkey{1}, AccumReward: "10", AbsentTimes: types.NewBitArray(24)})
	state.Candidates = append(state.Candidates, types.Candidate{
		ID: 1, RewardAddress: v, OwnerAddress: v, ControlAddress: v, TotalBipStake: stake, PubKey: types.Pubkey{1}, Commission: 10,
		Stakes: []types.Stake{{Owner: v, Coin: 0, Value: stake, BipValue: stake}}, Status: 2,
	})
	state.Accounts = append(state.Accounts, types.Account{Address: owner, Balance: []types.Balance{
		{Coin: 0, Value: helpers.BipToPip(big.NewInt(1000000)).String()},
	}})
	return state
}

func TestVerifFinding_F11_CreateTokenChargedTheCreateCoinPrice(t *testing.T) {
	address, pk := CreateAddress()
	state := f11State(address)
	state.Commission.CreateCoin = helpers.BipToPip(big.NewInt(7)).String()
	state.Commission.CreateToken = helpers.BipToPip(big.NewInt(1)).String()
	ticker := helpers.StringToBigInt(state.Commission.CreateTicker7_10)
	app := CreateApp(state)
	SendBeginBlock(app, 1)
	before := app.CurrentState().Accounts().GetBalance(address, 0)
	tx := CreateTx(app, address, transaction.TypeCreateToken, transaction.CreateTokenData{
		Name: "t", Symbol: types.StrToCoinBaseSymbol("TESTTOKEN"), InitialAmount: helpers.BipToPip(big.NewInt(10)), MaxSupply: helpers.BipToPip(big.NewInt(100)), Mintable: true, Burnable: true,
	}, 0)
	if r := SendTx(app, SignTx(pk, tx)); r.Code != code.OK {
		t.Fatalf("CreateToken: %d %s", r.Code, r.Log)
	}
	SendEndBlock(app, 1)
	SendCommit(app)
	paid := new(big.Int).Sub(before, app.CurrentState().Accounts().GetBalance(address, 0))
	want := new(big.Int).Add(ticker, helpers.BipToPip(big.NewInt(1)))
	if paid.Cmp(want) != 0 {
		t.Fatalf("CreateToken cost %s, want ticker fee + CreateToken price = %s (ticker fee + CreateCoin price would be %s)", paid, want, new(big.Int).Add(ticker, helpers.BipToPip(big.NewInt(7))))
	}
}

func TestVerifFinding_F12_ZeroTickerPriceReportsFailureAfterApplying(t *testing.T) {
	address, pk := CreateAddress()
	state := f11State(address)
	state.Commission.CreateTicker7_10 = "0"
	state.Commission.CreateToken = "0"
	state.Commission.CreateCoin = "0"
	app := CreateApp(state)
	SendBeginBlock(app, 1)
	tx := CreateTx(app, address, transaction.TypeCreateToken, transaction.CreateTokenData{
		Name: "t", Symbol: types.StrToCoinBaseSymbol("TESTTOKEN"), InitialAmount: helpers.BipToPip(big.NewInt(10)), MaxSupply: helpers.BipToPip(big.NewInt(100)), Mintable: true, Burnable: true,
	}, 0)
	r := SendTx(app, SignTx(pk, tx))
	SendEndBlock(app, 1)
	SendCommit(app)
	created := app.CurrentState().Coins().ExistsBySymbol(types.StrToCoinBaseSymbol("TESTTOKEN"))
	nonce := app.CurrentState().Accounts().GetNonce(address)
	if r.Code != code.OK && (created || nonce != 0) {
		t.Fatalf("DeliverTx returned code %d (rejected) but the token exists=%v and the sender's nonce is %d", r.Code, created, nonce)
	}
}
