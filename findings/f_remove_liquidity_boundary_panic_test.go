package tests

// Finding F10 (properties C07, C06).
//
// RemoveLiquidity whose fee is paid in one of the pool's own coins through that
// very pool: Run validates the minimum volumes against a *simulation* of the
// pool after the commission swap (AddLastSwapStepWithOrders), DeliverTx then
// really sells the commission into the pool (PairSellWithOrders, which also
// burns 0.1% of the amount sold) and calls PairBurn on the real reserves.  The
// two pool states differ by a few units, so for a minimum volume at the boundary
// CheckBurn on the simulation passes while Pair.Burn on the real pool panics
// with INSUFFICIENT_LIQUIDITY_BURNED: a valid, signed transaction that CheckTx
// accepts crashes DeliverTx on every node.
//
// The test searches the boundary with the executor's own CheckTx mode (largest
// MinimumVolume0 that CheckTx accepts) and delivers that transaction.
//
// Usage: copy into <repo>/tests/ and run
//   go test -vet=off -count=1 -run 'TestVerifFinding_F10' ./tests/

import (
	"fmt"
	"math/big"
	"sync"
	"testing"

	"github.com/MinterTeam/minter-go-node/coreV2/code"
	"github.com/MinterTeam/minter-go-node/coreV2/minter"
	"github.com/MinterTeam/minter-go-node/coreV2/transaction"
	"github.com/MinterTeam/minter-go-node/coreV2/types"
	"github.com/MinterTeam/minter-go-node/helpers"
)

func f10State(owner types.Address) types.AppState {
	state := DefaultAppState()
	stake := helpers.BipToPip(big.NewInt(1000)).String()
	v := types.Address{1}
	state.Validators = append(state.Validators, types.Validator{TotalBipStake: stake, PubKey: types.Pubkey{1}, AccumReward: "10", AbsentTimes: types.NewBitArray(24)})
	state.Candidates = append(state.Candidates, types.Candidate{
		ID: 1, RewardAddress: v, OwnerAddress: v, ControlAddress: v, TotalBipStake: stake, PubKey: types.Pubkey{1}, Commission: 10,
		Stakes: []types.Stake{{Owner: v, Coin: 0, Value: stake, BipValue: stake}}, Status: 2,
	})
	state.Coins = append(state.Coins, types.Coin{
		ID: 1, Name: "Test 1", Symbol: types.StrToCoinBaseSymbol("TEST1"), Volume: helpers.BipToPip(big.NewInt(100000)).String(),
		Crr: 0, Reserve: "0", MaxSupply: "90000000000000000000000000000", OwnerAddress: &owner, Mintable: true, Burnable: true,
	})
	state.Accounts = append(state.Accounts, types.Account{Address: owner, Balance: []types.Balance{
		{Coin: 0, Value: helpers.BipToPip(big.NewInt(100000)).String()},
		{Coin: 1, Value: helpers.BipToPip(big.NewInt(100000)).String()},
	}})
	return state
}

func TestVerifFinding_F10_RemoveLiquidityBoundaryPanicsInDeliverTx(t *testing.T) {
	address, pk := CreateAddress()
	app := CreateApp(f10State(address))
	SendBeginBlock(app, 1)
	// pool (TEST1, BIP) created by the account: it receives the pool tokens
	tx := CreateTx(app, address, transaction.TypeCreateSwapPool, transaction.CreateSwapPoolData{
		Coin0: 1, Coin1: 0, Volume0: helpers.BipToPip(big.NewInt(900)), Volume1: helpers.BipToPip(big.NewInt(400)),
	}, 0)
	if r := SendTx(app, SignTx(pk, tx)); r.Code != code.OK {
		t.Fatalf("CreateSwapPool: %d %s", r.Code, r.Log)
	}
	SendEndBlock(app, 1)
	SendCommit(app)

	SendBeginBlock(app, 2)
	liquidity := big.NewInt(2658007)
	mk := func(min0 *big.Int) []byte {
		tx := CreateTx(app, address, transaction.TypeRemoveLiquidity, transaction.RemoveLiquidityV240{
			Coin0: 1, Coin1: 0, Liquidity: liquidity, MinimumVolume0: min0, MinimumVolume1: big.NewInt(0),
		}, 1) // fee paid in TEST1, i.e. through pool (TEST1, BIP) itself
		return SignTx(pk, tx)
	}
	check := func(raw []byte) uint32 {
		return minter.GetExecutor(minter.V3).RunTx(app.CurrentState(), raw, nil, app.Height()+1, &sync.Map{}, 1, true).Code
	}
	// largest MinimumVolume0 that CheckTx accepts
	lo, hi := big.NewInt(0), new(big.Int).Mul(liquidity, big.NewInt(1000))
	if check(mk(lo)) != code.OK {
		t.Fatalf("RemoveLiquidity with no minimum is rejected by CheckTx: code %d", check(mk(lo)))
	}
	for new(big.Int).Sub(hi, lo).Cmp(big.NewInt(1)) > 0 {
		mid := new(big.Int).Rsh(new(big.Int).Add(lo, hi), 1)
		if check(mk(mid)) == code.OK {
			lo = mid
		} else {
			hi = mid
		}
	}
	raw := mk(lo)
	if c := check(raw); c != code.OK {
		t.Fatalf("boundary transaction rejected by CheckTx: %d", c)
	}
	var panicked interface{}
	var resp uint32
	func() {
		defer func() { panicked = recover() }()
		resp = SendTx(app, raw).Code
	}()
	if panicked != nil {
		t.Fatalf("DeliverTx panicked on a transaction CheckTx accepted (MinimumVolume0=%s): %v", lo, fmt.Sprint(panicked))
	}
	if resp != code.OK {
		t.Fatalf("CheckTx accepted but DeliverTx rejected with code %d (MinimumVolume0=%s)", resp, lo)
	}
}

// Same root cause, AddLiquidity (properties C02, C15-style limit): the amount of
// the second coin is validated (against MaximumVolume1 and against the sender's
// balance) on the simulated pool, which holds 0.1% of the commission more of the
// first coin than the real pool will; DeliverTx mints on the real pool, which
// needs more of the second coin: the sender is debited more than
// MaximumVolume1, and with a balance that just covers the simulated amount the
// balance becomes negative.
func TestVerifFinding_F10_AddLiquidityChargesMoreThanMaximum(t *testing.T) {
	address, pk := CreateAddress()
	app := CreateApp(f10State(address))
	SendBeginBlock(app, 1)
	tx := CreateTx(app, address, transaction.TypeCreateSwapPool, transaction.CreateSwapPoolData{
		Coin0: 1, Coin1: 0, Volume0: helpers.BipToPip(big.NewInt(900)), Volume1: helpers.BipToPip(big.NewInt(400)),
	}, 0)
	if r := SendTx(app, SignTx(pk, tx)); r.Code != code.OK {
		t.Fatalf("CreateSwapPool: %d %s", r.Code, r.Log)
	}
	SendEndBlock(app, 1)
	SendCommit(app)

	SendBeginBlock(app, 2)
	volume0 := helpers.BipToPip(big.NewInt(90000))
	mk := func(max1 *big.Int) []byte {
		tx := CreateTx(app, address, transaction.TypeAddLiquidity, transaction.AddLiquidityDataV260{
			Coin0: 1, Coin1: 0, Volume0: volume0, MaximumVolume1: max1,
		}, 1) // fee paid in TEST1 through pool (TEST1, BIP) itself
		return SignTx(pk, tx)
	}
	check := func(raw []byte) uint32 {
		return minter.GetExecutor(minter.V3).RunTx(app.CurrentState(), raw, nil, app.Height()+1, &sync.Map{}, 1, true).Code
	}
	// smallest MaximumVolume1 that CheckTx accepts
	lo, hi := big.NewInt(0), helpers.BipToPip(big.NewInt(90000))
	if check(mk(hi)) != code.OK {
		t.Fatalf("AddLiquidity with a generous maximum is rejected by CheckTx: code %d", check(mk(hi)))
	}
	for new(big.Int).Sub(hi, lo).Cmp(big.NewInt(1)) > 0 {
		mid := new(big.Int).Rsh(new(big.Int).Add(lo, hi), 1)
		if check(mk(mid)) == code.OK {
			hi = mid
		} else {
			lo = mid
		}
	}
	before := app.CurrentState().Accounts().GetBalance(address, 0)
	if r := SendTx(app, mk(hi)); r.Code != code.OK {
		t.Fatalf("CheckTx accepted but DeliverTx rejected with code %d", r.Code)
	}
	SendEndBlock(app, 2)
	SendCommit(app)
	after := app.CurrentState().Accounts().GetBalance(address, 0)
	paid := new(big.Int).Sub(before, after)
	if paid.Cmp(hi) > 0 {
		t.Fatalf("AddLiquidity debited %s of the second coin, more than MaximumVolume1 = %s", paid, hi)
	}
}
