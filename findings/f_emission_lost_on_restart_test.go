package tests

// Finding F2 (property C09).
//
// coreV2/appdb/appdb.go: SaveEmission() returns early unless isDirtyPrice is set (it
// tests the wrong flag; isDirtyEmission is never used) and isDirtyPrice is only set by
// SetPrice (InitChain / daily reward-price update). After a node restart the flags of
// the fresh AppDB are false: every EndBlock still updates the in-memory emission
// (SetEmission) but Commit -> SaveEmission writes nothing until the next reward price
// update. A second restart inside that window silently rolls the emission counter
// back to the value persisted before the first restart, although the state tree (and
// the coins that were really emitted) are committed. The emission counter gates the
// emission cap (BeginBlock/EndBlock compare it with TotalEmission), so restarted nodes
// disagree with never-restarted ones about the amount already emitted.
//
// The test drives three successive minter.Blockchain instances over the same
// goleveldb-backed home directory through the ABCI surface only.
//
// Usage: copy into <repo>/tests/ and run
//   go test -vet=off -count=1 -run 'TestVerifFinding_F2' ./tests/

import (
	"math/big"
	"testing"
	"time"

	"github.com/MinterTeam/minter-go-node/cmd/utils"
	"github.com/MinterTeam/minter-go-node/config"
	"github.com/MinterTeam/minter-go-node/coreV2/minter"
	"github.com/MinterTeam/minter-go-node/coreV2/types"
	"github.com/MinterTeam/minter-go-node/helpers"
	"github.com/tendermint/go-amino"
	tmTypes "github.com/tendermint/tendermint/abci/types"
	"github.com/tendermint/tendermint/crypto/ed25519"
	tmTypes1 "github.com/tendermint/tendermint/proto/tendermint/types"
)

func f2Open(t *testing.T, home string) *minter.Blockchain {
	storage := utils.NewStorage(home, "")
	if _, err := storage.InitStateLevelDB("data/state", nil); err != nil {
		t.Fatal(err)
	}
	if _, err := storage.InitEventLevelDB("data/events", nil); err != nil {
		t.Fatal(err)
	}
	cfg := config.GetConfig(home)
	cfg.DBBackend = "goleveldb"
	return minter.NewMinterBlockchain(storage, cfg, nil, updateStakePeriod, expiredOrdersPeriod, nil)
}

// f2Block runs one empty block; the validator set is the single genesis validator, so
// the vote info is built from its public key (no access to app internals needed).
func f2Block(app *minter.Blockchain, height int64, valPub [32]byte) {
	addr := ed25519.PubKey(valPub[:]).Address().Bytes()
	app.BeginBlock(tmTypes.RequestBeginBlock{
		Header: tmTypes1.Header{Height: height}, // zero header time: no reward price update
		LastCommitInfo: tmTypes.LastCommitInfo{Votes: []tmTypes.VoteInfo{{
			Validator:       tmTypes.Validator{Address: addr, Power: 100},
			SignedLastBlock: true,
		}}},
	})
	app.EndBlock(tmTypes.RequestEndBlock{Height: height})
	app.Commit()
}

func TestVerifFinding_F2_EmissionLostAfterSecondRestart(t *testing.T) {
	home := t.TempDir()
	valPub := [32]byte{1}

	state := DefaultAppState()
	stake := helpers.BipToPip(big.NewInt(1000)).String()
	owner := types.Address{1}
	state.Validators = append(state.Validators, types.Validator{
		TotalBipStake: stake, PubKey: valPub, AccumReward: "10",
		AbsentTimes: types.NewBitArray(24), // must be non-nil, otherwise the validator list cannot be re-decoded on restart
	})
	state.Candidates = append(state.Candidates, types.Candidate{
		ID: 1, RewardAddress: owner, OwnerAddress: owner, ControlAddress: owner,
		TotalBipStake: stake, PubKey: valPub, Commission: 10,
		Stakes: []types.Stake{{Owner: owner, Coin: 0, Value: stake, BipValue: stake}},
		Status: 2,
	})
	jsonState, err := amino.MarshalJSON(state)
	if err != nil {
		t.Fatal(err)
	}

	// ---- instance 1: InitChain + blocks 2..5
	// (InitialHeight 2: with InitialHeight 1 the iavl version numbering of this code base is
	// shifted by one against the block height and a reopened state cannot commit at all)
	app := f2Open(t, home)
	app.InitChain(tmTypes.RequestInitChain{
		Time:          time.Now(),
		ChainId:       "test",
		Validators:    []tmTypes.ValidatorUpdate{tmTypes.Ed25519ValidatorUpdate(valPub[:], 1)},
		InitialHeight: 2,
		AppStateBytes: jsonState,
	})
	h := int64(2)
	for ; h <= 5; h++ {
		f2Block(app, h, valPub)
	}
	e1 := new(big.Int).Set(app.GetEmission())
	if err := app.Close(); err != nil {
		t.Fatal(err)
	}

	// ---- instance 2 (first restart): blocks 6..11
	app = f2Open(t, home)
	if got := app.GetEmission(); got.Cmp(e1) != 0 {
		t.Fatalf("after first restart emission = %s, want %s (persisted while isDirtyPrice was still set by InitChain)", got, e1)
	}
	for ; h <= 11; h++ {
		f2Block(app, h, valPub)
	}
	e2 := new(big.Int).Set(app.GetEmission())
	if e2.Cmp(e1) != 1 {
		t.Fatalf("test precondition: emission did not grow during blocks 6..11 (%s -> %s)", e1, e2)
	}
	if err := app.Close(); err != nil {
		t.Fatal(err)
	}

	// ---- instance 3 (second restart): emission must be what instance 2 committed
	app = f2Open(t, home)
	defer app.Close()
	e3 := app.GetEmission()
	if e3.Cmp(e2) != 0 {
		t.Fatalf("emission lost on restart: committed through height 11 with emission %s, but after reopening the node reports %s "+
			"(= value before the first restart %s; %s pip emitted in blocks 6..11 are forgotten because Commit->SaveEmission is gated by isDirtyPrice)",
			e2, e3, e1, new(big.Int).Sub(e2, e3))
	}
}
