#!/bin/sh
# Builds the verification engine offline from files on disk only.
set -e
export GOFLAGS=-mod=mod GOPROXY=off GOSUMDB=off GOTOOLCHAIN=local
cd /verif/engine
mkdir -p /verif/bin /verif/evidence /verif/replays
go build -o /verif/bin/vcheck ./cmd/vcheck
