module verif/engine

go 1.23

require (
	golang.org/x/crypto v0.0.0-20211202192323-5770296d904e
	golang.org/x/tools v0.29.0
)

require (
	golang.org/x/mod v0.22.0 // indirect
	golang.org/x/sync v0.10.0 // indirect
)
