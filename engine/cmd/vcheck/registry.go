package main

import "verif/engine/gosym"

type HSpec struct {
	Pkg     string
	Func    string
	Tier    string // "quick": both tiers; "thorough": thorough only
	Configs []map[string]int64
	Opts    gosym.HarnessOpts
	Bounds  string
}

type Check struct {
	ID           string
	Harnesses    []HSpec
	Assumptions  []string
	ReportPanics bool // C07: panic paths of the harnesses are this check's violations
}

var registry = map[string]*Check{}

func cfgs(name string, vals ...int64) []map[string]int64 {
	var out []map[string]int64
	for _, v := range vals {
		out = append(out, map[string]int64{name: v})
	}
	return out
}

func cfg(kv ...interface{}) map[string]int64 {
	m := map[string]int64{}
	for i := 0; i+1 < len(kv); i += 2 {
		m[kv[i].(string)] = int64(kv[i+1].(int))
	}
	return m
}

var nia = []gosym.BackendSpec{gosym.Z3New, gosym.CVC5, gosym.Z3Old}

const (
	swapPkg   = "coreV2/state/swap"
	txPkg     = "coreV2/transaction"
	minterPkg = "coreV2/minter"
	appdbPkg  = "coreV2/appdb"
)

var commonAssumptions = []string{
	"single goroutine: sync primitives are no-ops (C25 is not claimed)",
	"cosmos/iavl and tm-db are correct key-value stores (TreeModel/KVModel); SaveVersion is atomic",
	"math/big follows the semantics fixed in DESIGN.md appendix B (validated per run against the native build on sampled path models)",
	"fmt/log/strconv formatting has no effect on consensus state",
}

var txAssumptions = append([]string{
	"pre-state = arbitrary non-negative ledger over the harness universe (accounts A,B,zero,burn; base coin, bancor coin 1, token 2; optional pools) in which every custom coin's volume equals the sum of its holdings, volume <= max supply, bancor reserve >= minimum: the representation invariant AppState.Verify demands of a genesis",
	"balances are strictly positive except where a config makes one zeroable (a zero balance is a different account shape)",
	"signature recovery abstracted: signer identity is a harness input (the signature gate itself is C23's subject); transaction hash opaque",
	"bancor formulas are uninterpreted functions under the contract result>=0, sale return<=reserve, zero->zero, sell-all=reserve (C12 establishes it for formula.go modulo math.Pow)",
	"rlp struct layer as field box (faithful and injective on exported fields)",
}, commonAssumptions...)

var blockAssumptions = append([]string{
	"block universe: candidates P (validator) and Q, delegators D1, D2 with base-coin stakes of arbitrary size (P's and Q's first stake >= the 1000 BIP validator minimum), frozen funds at the heights listed by the harness; testnet period constants (unbond 531 blocks, same code path as mainnet's 518400)",
	"version table of a current chain (v300..v330 active): PayRewardsV5Fix and UpdatePriceFix are the selected variants",
	"Tendermint delivers well-formed BeginBlock/EndBlock requests; each validator's status in the block (present, absent, missing from the commit info) is a harness choice",
}, commonAssumptions...)

func add(id string, assumptions []string, hs ...HSpec) {
	c := registry[id]
	if c == nil {
		c = &Check{ID: id, ReportPanics: id == "C07"}
		registry[id] = c
	}
	c.Harnesses = append(c.Harnesses, hs...)
	for _, a := range assumptions {
		dup := false
		for _, b := range c.Assumptions {
			if a == b {
				dup = true
			}
		}
		if !dup {
			c.Assumptions = append(c.Assumptions, a)
		}
	}
}

func tier(t string, hs ...HSpec) []HSpec {
	out := make([]HSpec, len(hs))
	for i, h := range hs {
		h.Tier = t
		out[i] = h
	}
	return out
}

func init() {
	// ---------------------------------------------------------- transactions
	sendQuick := []map[string]int64{
		cfg("gasCoin", 0, "coin", 0),
		cfg("gasCoin", 0, "coin", 1, "zeroable", 0, "zeroableOn", 1),
		cfg("gasCoin", 1, "coin", 1),
		cfg("gasCoin", 1, "coin", 0, "toSelf", 1),
		// price table denominated in the token (converted through pool (2,0))
		cfg("gasCoin", 0, "coin", 0, "priceCoin", 2, "pool20", 1, "concretePool", 1, "concretePrices", 1),
	}
	sendPool := []map[string]int64{
		cfg("gasCoin", 1, "coin", 0, "pool10", 1),
		cfg("gasCoin", 2, "coin", 1, "pool20", 1),
	}
	send := HSpec{Pkg: txPkg, Func: "VerifHarness_Send_Deliver", Configs: sendQuick, Bounds: "one CheckTx+DeliverTx of Send; every amount, nonce, gas price, chain id symbolic (unbounded integers / full machine width)"}
	sendP := HSpec{Pkg: txPkg, Func: "VerifHarness_Send_Deliver", Configs: sendPool, Opts: gosym.HarnessOpts{MaxPaths: 1500}, Bounds: "as above with the commission paid through a swap pool with symbolic reserves; path bound 1500"}
	failFee := HSpec{Pkg: txPkg, Func: "VerifHarness_C07_FailedTxPoolFee", Configs: []map[string]int64{cfg("pool10", 1, "concretePool", 1, "concretePrices", 1)},
		Bounds: "rejected Send paid in a pool coin; concrete pool reserves and price table, sender balances symbolic"}
	failFeeSym := HSpec{Pkg: txPkg, Func: "VerifHarness_C07_FailedTxPoolFee", Configs: []map[string]int64{cfg("pool10", 1, "concretePool", 1)}, Opts: gosym.HarnessOpts{MaxPaths: 1500},
		Bounds: "as above with symbolic price table and gas price"}
	for _, id := range []string{"C01", "C02", "C03", "C04", "C05", "C06", "C07", "C27"} {
		add(id, txAssumptions, tier("quick", send)...)
	}
	// the symbolic-pool variant takes ~20 minutes per configuration and leaves
	// some paths undecided (non-linear reserves): it runs in the thorough tier of
	// the two properties whose assertions it can add something to
	for _, id := range []string{"C03", "C07"} {
		add(id, txAssumptions, tier("thorough", sendP)...)
	}
	for _, id := range []string{"C01", "C02", "C03", "C07"} {
		add(id, txAssumptions, tier("quick", failFee)...)
	}
	add("C07", txAssumptions, tier("thorough", failFeeSym)...)

	// (no bancor gas coin here: with the formula as an uninterpreted function the
	// fee of the second delivery would be unrelated to the first one's)
	twice := HSpec{Pkg: txPkg, Func: "VerifHarness_Send_Twice", Configs: []map[string]int64{cfg("gasCoin", 0, "coin", 0), cfg("gasCoin", 0, "coin", 2)},
		Bounds: "two deliveries of the same signed Send paid in the base coin; amounts, gas price, nonce symbolic"}
	for _, id := range []string{"C04", "C26"} {
		add(id, txAssumptions, tier("quick", twice)...)
	}

	sellAll := HSpec{Pkg: txPkg, Func: "VerifHarness_SellAllPool_Deliver", Configs: []map[string]int64{
		cfg("pool20", 1, "concretePool", 1, "concretePrices", 1, "zeroable", 2, "zeroableOn", 1, "gasCoinField", 0),
		cfg("pool20", 1, "concretePool", 1, "concretePrices", 1, "zeroable", 2, "zeroableOn", 1, "gasCoinField", 1),
	}, Bounds: "one CheckTx+DeliverTx of SellAllSwapPool token->base through a pool with concrete reserves and price table; balances and minimum symbolic; the envelope's gas-coin field differs from the coin sold"}
	for _, id := range []string{"C01", "C02", "C03", "C05", "C06", "C07", "C15"} {
		add(id, txAssumptions, tier("quick", sellAll)...)
	}
	msig := HSpec{Pkg: txPkg, Func: "VerifHarness_Multisig_Send", Configs: []map[string]int64{cfg("nsig", 2, "concretePrices", 1), cfg("nsig", 1, "concretePrices", 1)},
		Bounds: "Send from a 3-owner multisig account; weights and threshold full uint32, each of <= 2 signatures is any owner or a stranger (duplicates included)"}
	msig3 := HSpec{Pkg: txPkg, Func: "VerifHarness_Multisig_Send", Configs: []map[string]int64{cfg("nsig", 3, "concretePrices", 1)}, Bounds: "as above with 3 signatures"}
	add("C05", txAssumptions, tier("quick", msig)...)
	// the multisig branch has its own nonce gate and replay behaviour
	add("C04", txAssumptions, tier("quick", msig)...)
	add("C26", txAssumptions, tier("quick", msig)...)
	msigEdit := HSpec{Pkg: txPkg, Func: "VerifHarness_Multisig_EditThenSend", Tier: "quick", Configs: []map[string]int64{cfg("concretePrices", 1, "extra", 0), cfg("concretePrices", 1, "extra", 1), cfg("concretePrices", 1, "extra", 2)},
		Bounds: "EditMultisig of a 3-owner wallet to 2 weights and 2..4 addresses (weights, threshold symbolic), then a Send signed by the last listed owner"}
	add("C05", txAssumptions, msigEdit)
	add("C07", txAssumptions, msigEdit)
	add("C05", txAssumptions, tier("quick", msig3)...) // cheap (316 paths, 4 s): a duplicate signer separated by another signature needs 3 signatures (seed C05-h)
	add("C07", txAssumptions, tier("thorough", msig)...)
	mint := HSpec{Pkg: txPkg, Func: "VerifHarness_MintToken_Deliver", Configs: []map[string]int64{
		cfg("coin", 3, "pool10", 1, "lp10", 1, "concretePool", 1, "concretePrices", 1, "signerB", 1),
		cfg("coin", 3, "pool10", 1, "lp10", 1, "concretePool", 1, "concretePrices", 1, "signerB", 0),
		cfg("coin", 2, "concretePrices", 1, "signerB", 0),
		cfg("coin", 2, "concretePrices", 1, "signerB", 1),
		cfg("coin", 1, "concretePrices", 1, "signerB", 0),
	}, Bounds: "MintToken of the token, the bancor coin or the pool token by the ticker owner or another account; amount symbolic"}
	for _, id := range []string{"C22", "C05", "C02", "C01"} {
		add(id, txAssumptions, tier("quick", mint)...)
	}
	burn := HSpec{Pkg: txPkg, Func: "VerifHarness_BurnToken_Deliver", Configs: []map[string]int64{
		cfg("coin", 3, "pool10", 1, "lp10", 1, "concretePool", 1, "concretePrices", 1, "signerB", 1),
		cfg("coin", 2, "concretePrices", 1, "signerB", 0),
		cfg("coin", 2, "concretePrices", 1, "signerB", 1),
		cfg("coin", 1, "concretePrices", 1, "signerB", 0),
	}, Bounds: "BurnToken of the token, the bancor coin or the pool token by the ticker owner or another holder; amount symbolic"}
	for _, id := range []string{"C22", "C05", "C02", "C01", "C03", "C06", "C07"} {
		add(id, txAssumptions, tier("quick", burn)...)
	}

	// ---------------------------------------------------------- blocks
	byz := HSpec{Pkg: minterPkg, Func: "VerifHarness_Block_ByzantineAndMaturity", Configs: []map[string]int64{cfg("evidence", 1), cfg("evidence", 0)},
		Bounds: "one BeginBlock at height 1000: byzantine evidence against validator P (or none), 5 frozen items (2 maturing now, one of them a pending move), all amounts unbounded positive integers"}
	endAcc := HSpec{Pkg: minterPkg, Func: "VerifHarness_Block_EndAccumulate", Configs: []map[string]int64{cfg("statuses", 1), cfg("statuses", 0, "atCap", 1), cfg("statuses", 1, "toDrop", 1)},
		Bounds: "one EndBlock at a non-payout height, 2 validators with every present/absent/missing status, reward, safe reward, fees, stakes symbolic"}
	endAccT := HSpec{Pkg: minterPkg, Func: "VerifHarness_Block_EndAccumulate", Configs: []map[string]int64{cfg("statuses", 1, "atCap", 1)}, Bounds: "as above at the emission cap"}
	payByz := HSpec{Pkg: minterPkg, Func: "VerifHarness_Block_EndPayout", Configs: []map[string]int64{cfg("evidence", 1)}, Opts: gosym.HarnessOpts{MaxPaths: 400},
		Bounds: "BeginBlock with evidence against P then EndBlock of the same payout block (composed step); accrued rewards symbolic"}
	pay := HSpec{Pkg: minterPkg, Func: "VerifHarness_Block_EndPayout", Configs: []map[string]int64{cfg("evidence", 0)}, Opts: gosym.HarnessOpts{MaxPaths: 2500},
		Bounds: "one EndBlock at a payout height, 2 validators x up to 2 stakes, no locked (x3) stakes, accrued rewards symbolic; path bound 2500"}
	for _, id := range []string{"C01", "C16", "C18", "C07"} {
		add(id, blockAssumptions, tier("quick", byz)...)
	}
	for _, id := range []string{"C01", "C19", "C28", "C07"} {
		add(id, blockAssumptions, tier("quick", endAcc)...)
		add(id, blockAssumptions, tier("thorough", endAccT)...)
	}
	for _, id := range []string{"C19", "C07"} {
		add(id, blockAssumptions, tier("quick", payByz)...)
		add(id, blockAssumptions, tier("thorough", pay)...)
	}

	// two consecutive blocks through the real BeginBlock: attendance is per block
	twoBlocks := HSpec{Pkg: minterPkg, Func: "VerifHarness_Block_TwoBlocksStatuses", Tier: "quick",
		Bounds: "BeginBlock+EndBlock twice; in the second block each of 2 validators is reported signed, reported absent or not mentioned; stakes, reward, fees symbolic; emission far from the cap"}
	add("C19", blockAssumptions, twoBlocks)
	add("C07", blockAssumptions, twoBlocks)
	// buy side of the order book
	buyOrders := HSpec{Pkg: swapPkg, Func: "VerifHarness_C13_BuyWithOrders", Tier: "quick", Configs: []map[string]int64{cfg("orders", 0, "atPoolPrice", 1)},
		Bounds: "concrete pool 10000/10000 and one resting order at the pool price; amount to buy symbolic in (0, 20000]"}
	buyOrdersT := HSpec{Pkg: swapPkg, Func: "VerifHarness_C13_BuyWithOrders", Tier: "thorough", Configs: []map[string]int64{cfg("orders", 0), cfg("orders", 1), cfg("orders", 2)},
		Bounds: "as above with 0..2 resting orders away from the pool price"}
	add("C13", commonAssumptions, buyOrders, buyOrdersT)
	add("C14", commonAssumptions, buyOrdersT)
	add("C07", commonAssumptions, buyOrders)
	add("C07", blockAssumptions, HSpec{Pkg: minterPkg, Func: "VerifHarness_Block_MoveTargetGone", Tier: "quick",
		Bounds: "one BeginBlock at the maturity height of a stake move whose target candidate was deleted one block earlier; amounts symbolic (open finding F5b)"})

	// ---------------------------------------------------------- C28 price rule
	add("C28", append([]string{
		"price rule: one AppDB.UpdatePriceFix step from a stored previous price with concrete previous reserves (3.5e9 BIP / 1e7 USDT) and one concrete new reserve, the other new reserve, the previous validators' reward and the off flag arbitrary; 350*p^(1/4) enters through math.Pow as an uninterpreted function (its accuracy is C12's open part); the -10% decision is compared with the integer predicate 100*r1*R0 < 91*r0*R1",
		"the time window of BeginBlock that triggers the update (first block of a stake period, 12:00-14:59, more than 3 hours after the last one) is not harnessed",
	}, commonAssumptions...), HSpec{Pkg: appdbPkg, Func: "VerifHarness_C28_UpdatePrice", Tier: "quick", Configs: []map[string]int64{cfg("off", 0), cfg("off", 1), cfg("off", 0, "symbolicR0", 1), cfg("off", 1, "symbolicR0", 1)},
		Bounds: "one price update; new USDT (or BIP) reserve and previous reward unbounded"})

	add("C28", append([]string{
		"update window: heights {721, 722, 1441, 1440}, block hours {11, 12, 14, 15} and gaps since the previous update {3h-1s, 3h, 3h+1s} are harness choices (block times are concrete in the engine: symbolic instants were measured too slow); the emission relative to the cap is symbolic",
	}, blockAssumptions...), HSpec{Pkg: minterPkg, Func: "VerifHarness_C28_RewardWindow", Tier: "quick",
		Bounds: "one BeginBlock per (height, hour, gap) choice; emission unbounded"})
	add("C07", blockAssumptions, HSpec{Pkg: minterPkg, Func: "VerifHarness_C28_RewardWindow", Tier: "quick", Bounds: "one BeginBlock per (height, hour, gap) choice; no panic"})
	add("C28", blockAssumptions, HSpec{Pkg: minterPkg, Func: "VerifHarness_C28_Recovery", Tier: "quick",
		Bounds: "two reward updates one stake period apart with an idle BIP/USDT pool (reserves in a power-of-two ratio so that the price is exact in 100-bit floats), the validators' share switched off in between"})

	// ---------------------------------------------------------- C09 app DB
	add("C09", append([]string{
		"app-DB layer: the key-value store under AppDB is a correct durable map (KVModel); rlp and tmjson as field boxes",
		"emission > 0 (a zero emission is stored as an empty value, which the reader cannot tell from an absent one; genesis emission is positive on every deployed chain)",
		"block heights and block times are concrete in this harness (their fixed-width encodings are not the subject)",
		"the app-DB block of Blockchain.Commit is mirrored by the harness as SetLastBlockHash, SetLastHeight, FlushValidators, SaveBlocksTime, SaveVersions, SaveEmission, SavePrice",
	}, commonAssumptions...), HSpec{Pkg: appdbPkg, Func: "VerifHarness_C09_AppDB", Tier: "quick", Configs: []map[string]int64{
		cfg("restart", 0), cfg("restart", 1), cfg("restart", 1, "newPrice", 1), cfg("restart", 0, "newVersion", 1, "newValidators", 1), cfg("restart", 1, "newVersion", 1, "newValidators", 1),
	}, Bounds: "genesis block + one block, with or without a restart in between; emission, price reserves, last reward: unbounded integers"})

	// ---------------------------------------------------------- C29 app DB + state tree through Snapshot/Restore
	{
		var cs []map[string]int64
		for _, start := range []int{0, 7} {
			for _, leaves := range []int{0, 1, 2, 3, 5} {
				cs = append(cs, cfg("startHeight", start, "leaves", leaves, "validators", leaves%2, "secondBlock", (leaves/2)%2, "restartBeforeSnapshot", leaves%2, "queriedBeforeRestore", (leaves+1)%2))
			}
		}
		cs = append(cs, cfg("startHeight", 7, "leaves", 4, "validators", 1, "secondBlock", 1, "restartBeforeSnapshot", 0, "queriedBeforeRestore", 1),
			cfg("startHeight", 7, "leaves", 4, "validators", 0, "secondBlock", 0, "restartBeforeSnapshot", 1, "queriedBeforeRestore", 0))
		add("C29", append([]string{
			"the byte pipeline between AppDB.Snapshot and AppDB.Restore (delimited protobuf, zlib, bufio, the SDK chunk writer/reader and the channel) is modelled as a lossless in-order queue of messages in which an empty byte slice arrives as nil; chunking, compression, checksums, the SDK snapshot manager/store and the ABCI glue of coreV2/minter/snapshots.go are outside the claim",
			"the IAVL exporter yields the leaves of the exported version in key order with a value-less inner node after every second leaf; the importer applies iavl's node validity rules and makes the leaves the imported version on Commit (tree shape, node hashes and per-node versions are outside the model; natively the real IAVL runs)",
			"the goroutine spawned by Snapshot runs to completion at the spawn point (one schedule); its concurrency with block execution, guarded by AppDB.WG, is outside the claim (C25 is not applicable for the same reason)",
			"the app-DB block of Blockchain.Commit is mirrored by the harness as SetLastBlockHash, SetLastHeight, FlushValidators, SaveBlocksTime, SaveVersions, SaveEmission, SavePrice; block execution on the restored node (lazy initState) is not part of this harness",
			"emission > 0; block heights and block times are concrete",
		}, commonAssumptions...), HSpec{Pkg: appdbPkg, Func: "VerifHarness_C29_SnapshotRestore", Tier: "quick", Configs: cs,
			Bounds: "producer: genesis + at most one further block, state tree of at most 6 leaves (one with an empty value); one snapshot, one restore into a fresh node, one further block on both; emission, price reserves, last reward unbounded; app-hash byte, leaf bytes, validator power symbolic"})
		add("C29", append([]string{
			"node level: Blockchain values assembled as NewMinterBlockchain does (MemDB storages, mock events store), the producer initialised by the real initState; block 1 on the producer, snapshot of height 1 by the real AppDB.Snapshot, AppDB.Restore into a fresh node, block 2 through the real BeginBlock/EndBlock/Commit on both (lazy initState on the restored one); stream and IAVL export/import as modelled above; no transactions in the blocks; the app hash in the model is a function of the tree version (the compared content is the leaves)",
		}, blockAssumptions...), HSpec{Pkg: minterPkg, Func: "VerifHarness_C29_RestoredNodeContinues", Tier: "quick",
			Bounds: "two candidates/validators with symbolic stakes, reward and fees symbolic, each validator present or absent in block 2; heights 1 and 2"})
	}

	// ---------------------------------------------------------- C09 / C29 at node level from the chain's first block
	{
		na := append([]string{
			"node level from the first block: the app-DB and state steps of Blockchain.InitChain are mirrored by the harness (SetStartHeight, version table, the real initState, the block universe standing for the genesis import, the genesis Commit of the state, SetLastHeight, emission, price and their Save calls); the genesis JSON itself is not decoded; then the first block through the real BeginBlock / EndBlock / Commit; initial height 1 (config initial=0) or 8 (initial=7)",
			"restart = a new Blockchain assembled like NewMinterBlockchain over the same databases (initState at construction if a start height is on disk, else as the first BeginBlock would); the compared content is Info() and the leaves of the state tree the second node works from",
		}, blockAssumptions...)
		add("C09", na, HSpec{Pkg: minterPkg, Func: "VerifHarness_Node_FirstBlockThenRestartOrSync", Tier: "quick", Configs: []map[string]int64{cfg("initial", 0, "mode", 0), cfg("initial", 7, "mode", 0)},
			Bounds: "genesis + one block, then a restart; two validators with symbolic stakes, reward, emission, price"})
		add("C29", na, HSpec{Pkg: minterPkg, Func: "VerifHarness_Node_FirstBlockThenRestartOrSync", Tier: "quick", Configs: []map[string]int64{cfg("initial", 0, "mode", 1), cfg("initial", 7, "mode", 1), cfg("initial", 7, "mode", 1, "viaCommit", 1)},
			Bounds: "genesis + one block (two with viaCommit), then snapshot and restore into a fresh node; with viaCommit the snapshot is the one Commit itself triggers (Blockchain.snapshot through the SDK manager, modelled as 'ask the snapshotter, keep the stream'; the goroutine run to completion at the spawn point); stream and IAVL export/import as modelled"})
	}

	// ---------------------------------------------------------- C25 map races between API reads and block execution
	{
		var q, all []map[string]int64
		matched := map[int][]int{0: {0}, 1: {0}, 2: {1}, 3: {1}, 4: {2}, 5: {2}, 6: {3}, 7: {4}, 8: {0}, 9: {2}, 10: {1, 3, 4}}
		for r := 0; r <= 10; r++ {
			for _, w := range matched[r] {
				for cold := 0; cold <= 1; cold++ {
					q = append(q, cfg("read", r, "write", w, "cold", cold, "commit", 1))
				}
			}
			for w := 0; w <= 4; w++ {
				for cold := 0; cold <= 1; cold++ {
					for commit := 0; commit <= 1; commit++ {
						all = append(all, cfg("read", r, "write", w, "cold", cold, "commit", commit))
					}
				}
			}
		}
		a25 := append([]string{
			"map-race part of the property only: a Go map read or iterated by an API query while block execution writes it (the runtime aborts the process on that); the equality of responses and app hashes under load, races on memory other than maps, and crashes of other kinds are outside",
			"trace-based: the query and the block-execution step are executed one after the other on the same state and their lock operations (sync.Mutex / sync.RWMutex by address) and map accesses (by map object) recorded; the interleaving is then symbolic: integer timestamps for every lock operation on a mutex both threads use and for the two accesses of a candidate pair, constrained by program order and by mutual exclusion of critical sections (two read sections may overlap); the assertion 'the two accesses cannot coincide' is decided by the SMT portfolio for every candidate pair (one representative per map, function, access kind and set of held locks)",
			"an interleaving in which a thread would take a different branch than in its sequential run is outside the claim; synchronisation other than mutexes (channels, atomics, WaitGroups) is not modelled (none orders API goroutines against block execution); sync.Map is internally synchronised and not tracked",
			"a predicted race is reported only after Go's race detector, run on the real code with the two threads in two goroutines, reports a race through a runtime map operation and both predicted functions",
			"a prediction the race detector does not confirm within 16 runs (the block step arriving at 16 different phases of the repeated query) is listed as inconclusive in the evidence, not reported: the detector only sees a race if the observed run leaves the two accesses unordered",
			"operations: 11 groups of CheckState queries (route search, pools, addresses, waitlist, candidates, stakes, coins, frozen funds/halts/app, export of pools, of candidates, of the other modules) against 5 groups of module mutations, each optionally followed by State.Commit, on warm or cold caches; balances, frozen funds, waitlist amounts symbolic",
		}, commonAssumptions...)
		add("C25", a25, HSpec{Pkg: "coreV2/state", Func: "VerifHarness_C25_MapRaces", Tier: "quick", Configs: q,
			Bounds: "two threads, one query group against its matching mutation group (export against all) followed by Commit; every interleaving of the two recorded traces that the locks allow"})
		add("C25", a25, HSpec{Pkg: "coreV2/state", Func: "VerifHarness_C25_MapRaces", Tier: "thorough", Configs: all,
			Bounds: "every query group against every mutation group, with and without Commit, warm and cold caches"})
	}

	// ---------------------------------------------------------- C09 state modules / C08 map order
	{
		var cs, cs8 []map[string]int64
		for step := 0; step <= 8; step++ {
			for restart := 0; restart <= 1; restart++ {
				cs = append(cs, cfg("step", step, "restart", restart))
			}
			cs8 = append(cs8, cfg("step", step, "concrete", 1))
		}
		add("C09", append([]string{
			"state modules: every module is populated through its own mutators (3 accounts, 2 coins, a multisig, 2 candidates x 3 stakes, 2 validators, 3 frozen items, 2 waitlist entries, halts, update votes, 2 used checks, 2 pools, 2 orders), committed, modified by one of 9 second-block steps (among them: three candidates' public keys replaced, which puts three entries into the block list; a reward update that leaves the safe reward as it was) (optionally in a restarted process) and committed again; after each commit a fresh State over the same database must answer every getter like the continuing one",
			"balances, frozen funds, waitlist, coin volume/reserve, slashed are symbolic; stakes, pool reserves and order volumes are concrete (they drive control flow / float-encoded keys)",
			"IAVL pruning (DeleteVersion) and the paged on-disk order index under long interleavings are outside",
		}, commonAssumptions...), HSpec{Pkg: "coreV2/state", Func: "VerifHarness_C09_StateRestart", Tier: "quick", Configs: cs,
			Bounds: "two committed blocks over the universe above; 9 kinds of second-block activity x restart or not"})
		add("C08", append([]string{
			"reduction: block execution starts no goroutines and reads no clock into state; the remaining source of cross-instance divergence examined here is Go's randomised map iteration",
			"every map range met while committing is explored in every order (all permutations up to 3 entries, rotations and reversal beyond), one deviating site per path (others in default order); the ordered sequence of database writes (store, key, value) must be identical across orders",
			"data is concrete in this mode (write traces are compared textually); separate processes with different GOMAXPROCS/GOGC are not run; unstable-sort ties, pointer-order and third-party nondeterminism are outside",
			"a violation is confirmed natively by running the same harness repeatedly and observing differing IAVL root hashes",
		}, commonAssumptions...), HSpec{Pkg: "coreV2/state", Func: "VerifHarness_C09_StateRestart", Tier: "quick", Configs: cs8, Opts: gosym.HarnessOpts{MapOrders: true},
			Bounds: "two State.Commit calls over the populated universe, 9 kinds of second-block activity; every iteration order at every map-range site, one deviating site per path"})
	}

	// ---------------------------------------------------------- C10 commit crash (application-level writes)
	{
		var cs []map[string]int64
		for k := 0; k <= 8; k++ {
			cs = append(cs, cfg("crashAfter", k))
			cs = append(cs, cfg("crashAfter", k, "newPrice", 1))
		}
		add("C10", append([]string{
			"application-level write order only: IAVL's own crash atomicity (SaveVersion, re-save of an existing version with an identical hash), LevelDB durability and Tendermint's handshake are by contract, not encoded; every app-DB write is individually atomic and durable in issue order",
			"the crash point is enumerated (after the k-th app-DB write of Blockchain.Commit, k = 0..8, which covers the whole sequence); emission, price and the previous block's values are symbolic",
			"recovery contract checked: Info() never reports a mixed (height, hash) pair; a reported height carries its own emission/price; a node that reports h-1 still has the h-1 emission to replay from",
		}, commonAssumptions...), HSpec{Pkg: minterPkg, Func: "VerifHarness_C10_CommitCrash", Tier: "quick", Configs: cs,
			Bounds: "one Commit of block h over a fully committed block h-1; crash after each of the 0..8 app-DB writes"})
	}

	// ---------------------------------------------------------- C24 events store
	{
		var cs []map[string]int64
		for prior := 0; prior <= 2; prior++ {
			for restart := 0; restart <= 1; restart++ {
				cs = append(cs, cfg("prior", prior, "restart", restart))
			}
		}
		add("C24", append([]string{
			"events store over the KVModel; tmjson as a field box (faithful on exported fields); addresses and public keys are concrete (chosen so that some are reused from an earlier batch), amounts and the jail height are symbolic",
			"compaction tables with at most 3 entries before the batch; the uint16 id space of savePubKey (65535 keys) is outside the bound",
		}, commonAssumptions...), HSpec{Pkg: "coreV2/events", Func: "VerifHarness_C24_RoundTrip", Tier: "quick", Configs: cs,
			Bounds: "a batch with one event of each of 10 kinds committed after 0..2 earlier batches, with or without a store restart; reloaded by the same and by a fresh store"})
	}

	// ---------------------------------------------------------- C20
	c20 := func(fn string, t string, vals ...int) HSpec {
		var cs []map[string]int64
		for _, v := range vals {
			if v < 0 { // negative: also explore present / absent / missing-from-commit statuses
				cs = append(cs, cfg("validators", -v, "statuses", 1))
			} else {
				cs = append(cs, cfg("validators", v))
			}
		}
		return HSpec{Pkg: minterPkg, Func: fn, Tier: t, Configs: cs, Bounds: "validators as configured, every stake an unbounded positive integer, every vote pattern; big.Float over exact reals: verdicts are drawn outside a band of 2^-60 around the float64 constant 2./3. (the 64-bit rounding of the quotient is below 2^-64 relative), every counterexample is replayed natively with real big.Float"}
	}
	add("C20", append([]string{
		"each validator's status in the block is a harness choice (present, absent, missing from the commit info); only present validators carry power",
		"math/big.Float modelled over exact reals in this harness (FloatMode real)",
	}, commonAssumptions...),
		c20("VerifHarness_C20_Halt", "quick", 2, 3, -2),
		c20("VerifHarness_C20_Commission", "quick", 2, -2),
		c20("VerifHarness_C20_Network", "quick", 2),
		c20("VerifHarness_C20_Halt", "thorough", -3),
		c20("VerifHarness_C20_Commission", "thorough", 3, -3),
		c20("VerifHarness_C20_Network", "thorough", 3, -2, -3))

	// ---------------------------------------------------------- C12 formula layer
	{
		real := gosym.HarnessOpts{RealBodies: []string{modulePath + "/formula."}}
		var quick, all []map[string]int64
		quick = append(quick, cfg("crr100", 1))
		for _, c := range []int{10, 33, 50, 99} {
			quick = append(quick, cfg("crr", c))
		}
		for c := 10; c <= 99; c++ {
			all = append(all, cfg("crr", c))
		}
		for _, fn := range []string{"SaleReturn", "PurchaseReturn", "PurchaseAmount", "SaleAmount"} {
			add("C12", append([]string{
				"formula layer only: big.Float arithmetic over exact reals, Int(nil) as truncation; math.Pow is an uninterpreted function constrained by x^y facts (positive for positive base, =1 at base 1 or exponent 0, <=1 / >=1 on either side of base 1 for positive exponents, x^1 = x, 0^y = 0); the exponent the code passes to Pow is asserted structurally",
				"the accuracy of math/pow.go, exp.go, log.go and of 100-bit rounding (the 'bounded relative floating-point error' half of the property) is outside this check",
				"reserve ratio: concrete per run (quick: 10, 33, 50, 99, 100; thorough: every value 10..99 and 100), amounts unbounded",
			}, commonAssumptions...),
				HSpec{Pkg: "formula", Func: "VerifHarness_C12_" + fn, Tier: "quick", Configs: quick, Opts: real, Bounds: "supply, reserve, amount unbounded positive integers; crr as configured"},
				HSpec{Pkg: "formula", Func: "VerifHarness_C12_" + fn, Tier: "thorough", Configs: all, Opts: real, Bounds: "every reserve ratio 10..99"})
		}
		// rounding of integers entering the 100-bit floats, on two slices where every
		// intermediate float value is exactly representable
		rounded := gosym.HarnessOpts{RealBodies: []string{modulePath + "/formula."}, FloatMode: "real-roundint"}
		var rq, ra []map[string]int64
		for _, c := range []int{10, 33, 50, 99} {
			rq = append(rq, cfg("crr", c, "pip33", 1))
		}
		for c := 10; c <= 99; c++ {
			ra = append(ra, cfg("crr", c, "pip33", 1))
		}
		for _, fn := range []string{"SellAllRounded", "NearTotalSaleRounded"} {
			add("C12", append([]string{
				"FloatMode real-roundint: big.Float.SetInt into a receiver of precision p rounds to nearest-even at p bits (exact integer model for 0 <= x < 2^(p+10)); every other float operation stays over exact reals; math.Pow uninterpreted with 0^y = 0",
				"the two slices harnessed are those in which all intermediate float values are exactly representable, so the hybrid model coincides with the real arithmetic: selling the entire supply (any supply and reserve up to 10^33 pip), and selling all but one pip of a supply of exactly 10^33 pip (any reserve up to 10^33 pip)",
			}, commonAssumptions...),
				HSpec{Pkg: "formula", Func: "VerifHarness_C12_" + fn, Tier: "quick", Configs: rq, Opts: rounded, Bounds: "supply, reserve <= 10^33 pip; crr 10, 33, 50, 99"},
				HSpec{Pkg: "formula", Func: "VerifHarness_C12_" + fn, Tier: "thorough", Configs: ra, Opts: rounded, Bounds: "every reserve ratio 10..99"})
		}
	}

	// ---------------------------------------------------------- C13 / C14 pool kernels and order book
	add("C13", append([]string{
		"pre-state of a pool: both reserves > 0 (re-established by every harness as a post-condition), LP supply > minimum liquidity",
		"big.Int.Sqrt by contract r*r <= x < (r+1)^2",
		"order-book harness: concrete pool and concrete resting orders (their float prices are executed bit-exactly by Go's own big.Float), symbolic taker amount",
	}, commonAssumptions...),
		HSpec{Pkg: swapPkg, Func: "VerifHarness_C13_SellKeepsK", Tier: "quick", Configs: cfgs("reversed", 0, 1), Opts: gosym.HarnessOpts{Backends: nia}, Bounds: "reserves and amount: unbounded positive integers"},
		HSpec{Pkg: swapPkg, Func: "VerifHarness_C13_BuyKeepsK", Tier: "quick", Configs: cfgs("reversed", 0, 1), Opts: gosym.HarnessOpts{Backends: nia}, Bounds: "unbounded positive integers"},
		HSpec{Pkg: swapPkg, Func: "VerifHarness_C13_CheckSwapGuardsSwap", Tier: "quick", Opts: gosym.HarnessOpts{Backends: nia}, Bounds: "unbounded non-negative integers"},
		HSpec{Pkg: swapPkg, Func: "VerifHarness_C13_MintBurn", Tier: "quick", Opts: gosym.HarnessOpts{Backends: nia}, Bounds: "unbounded positive integers"},
		HSpec{Pkg: swapPkg, Func: "VerifHarness_C13_BurnShare", Tier: "quick", Opts: gosym.HarnessOpts{Backends: nia}, Bounds: "unbounded positive integers"},
		HSpec{Pkg: swapPkg, Func: "VerifHarness_C13_CreateLocksBound", Tier: "quick", Opts: gosym.HarnessOpts{Backends: nia}, Bounds: "unbounded positive integers; sqrt by contract"},
		HSpec{Pkg: swapPkg, Func: "VerifHarness_C13_SellWithOrders", Tier: "quick", Configs: []map[string]int64{cfg("orders", 0), cfg("orders", 1), cfg("orders", 1, "skew", 1)}, Bounds: "concrete pool 10000/10000 BIP (or, skew, 1000000/1000 with one order at price 1010) and concrete resting orders; taker amount symbolic in (0, 100000 BIP]"},
		HSpec{Pkg: swapPkg, Func: "VerifHarness_C13_SellWithOrders", Tier: "thorough", Configs: []map[string]int64{cfg("orders", 2)}, Bounds: "as above with two order levels"})

	// ---------------------------------------------------------- C16 transaction side (Unbond, MoveStake, Lock, Delegate)
	{
		sa := append([]string{
			"staking extension of the transaction universe: candidates P and Q (owner B, online, own stakes 5000 BIP), A holds a base-coin stake of symbolic size in P (or the same amount on P's waitlist); the ledger oracle also sums stakes, pending updates, waitlists and the frozen funds at the heights a transaction can write to",
			"Lock: the due block is one of four concrete heights around the current one; MoveStake: the target is Q, P itself or a key that is no candidate; LockStake itself (a block-height gated type) is represented by an arbitrary lock-until height on the account",
			"custom-coin stakes are outside the registered bound",
		}, txAssumptions...)
		sc := func(kv ...interface{}) map[string]int64 { return cfg(append([]interface{}{"concretePrices", 1}, kv...)...) }
		stq := HSpec{Pkg: txPkg, Func: "VerifHarness_Stake_Deliver", Tier: "quick", Configs: []map[string]int64{sc("kind", 0), sc("kind", 1), sc("kind", 2), sc("kind", 3), sc("kind", 2, "maturedBatch", 1), sc("kind", 4), sc("kind", 0, "waitlisted", 1), sc("kind", 0, "waitlisted", 2), sc("kind", 1, "waitlisted", 1), sc("kind", 5), sc("kind", 5, "foreign", 1), sc("kind", 6)},
			Bounds: "one CheckTx+DeliverTx of Unbond / MoveStake / Lock / Delegate / Unbond-under-LockStake / SetCandidateOn / SetCandidateOff by A; value, stake, balances, jail height symbolic"}
		stt := HSpec{Pkg: txPkg, Func: "VerifHarness_Stake_Deliver", Tier: "thorough", Configs: []map[string]int64{cfg("kind", 0), cfg("kind", 1), cfg("kind", 3)},
			Bounds: "symbolic price table"}
		for _, id := range []string{"C16", "C18", "C01", "C02", "C03", "C05", "C06", "C07"} {
			add(id, sa, stq)
		}
		add("C18", append([]string{"absence window: a concrete pattern of 10 misses plus 4 arbitrary bits (the current height's slot among them), i.e. every count from 10 to 14; grace periods not in force"}, commonAssumptions...),
			HSpec{Pkg: "coreV2/state", Func: "VerifHarness_C18_AbsenceWindow", Tier: "quick", Bounds: "one SetValidatorAbsent at height 1000 from 16 windows around the 12-of-24 threshold"})
		add("C16", sa, stt)
	}

	// ---------------------------------------------------------- C17 validator set
	{
		c17a := append([]string{
			"ranking harness: 100..102 concrete candidates with single base-coin stakes of a few distinct values (ties resolved by id), one low-ranked candidate being a current validator, plus one candidate whose stake is symbolic (every position of the ranking, ties included); the real limits 100 / 64 / 1000 of the code are used unscaled (validator count 4 is passed to GetNewCandidates by the harness)",
			"slots harness: one candidate with all 1000 delegation slots filled (concrete stakes, unique smallest) and one incoming delegation of symbolic value",
			"powers harness: 3 online candidates with symbolic stakes through the real Blockchain.updateValidators (version table of a current chain: 64 validators max)",
			"custom-coin stakes (bip value through the bancor formula), punishments and status switches between updates are outside these harnesses",
		}, commonAssumptions...)
		add("C17", c17a,
			HSpec{Pkg: "coreV2/state", Func: "VerifHarness_C17_Ranking", Tier: "quick", Configs: append(cfgs("n", 99, 100, 101, 102), cfg("n", 100, "dust", 1), cfg("n", 101, "dust", 1)), Bounds: "n concrete candidates + 1 symbolic (optionally holding a custom-coin stake whose base-coin value may be zero); one RecalculateStakesV2 and GetNewCandidates(4)"},
			HSpec{Pkg: "coreV2/state", Func: "VerifHarness_C17_FullSlots", Tier: "quick", Bounds: "1000 concrete stakes + 1 symbolic delegation; one RecalculateStakesV2"},
			HSpec{Pkg: minterPkg, Func: "VerifHarness_C17_Powers", Tier: "quick", Bounds: "3 candidates, stakes unbounded positive (two of them >= 1000 BIP); one updateValidators"})
		add("C07", c17a,
			HSpec{Pkg: "coreV2/state", Func: "VerifHarness_C17_Ranking", Tier: "quick", Configs: cfgs("n", 101), Bounds: "102 candidates; no panic"},
			HSpec{Pkg: "coreV2/state", Func: "VerifHarness_C17_FullSlots", Tier: "quick", Bounds: "full slots; no panic"})
	}

	// ---------------------------------------------------------- CreateSwapPool (C07 boundary, C22 ids, C13 creation)
	{
		cp := HSpec{Pkg: txPkg, Func: "VerifHarness_CreatePool_Deliver", Tier: "quick", Configs: []map[string]int64{cfg("concretePrices", 1), cfg("concretePrices", 1, "reverse", 1)},
			Bounds: "one CheckTx+DeliverTx of CreateSwapPool (bancor coin, token) with arbitrary volumes; sqrt by contract"}
		for _, id := range []string{"C07", "C22", "C13", "C01", "C02", "C03", "C05", "C06"} {
			add(id, txAssumptions, cp)
		}
	}

	// ---------------------------------------------------------- remaining transaction types
	{
		mc := func(kv ...interface{}) map[string]int64 { return cfg(append([]interface{}{"concretePrices", 1}, kv...)...) }
		ma := append([]string{
			"Multisend with two items; BurnToken of the token / the bancor coin; SetHaltBlock and VoteUpdate votes of candidate P (owned by B) for one of three concrete heights around the current one, fresh or already cast; DeclareCandidacy of a free / an existing key; EditCandidate; CreateMultisig / EditMultisig with two owners (distinct or duplicated), weights and threshold symbolic; each by A or by B",
		}, txAssumptions...)
		misc := HSpec{Pkg: txPkg, Func: "VerifHarness_Misc_Deliver", Tier: "quick", Configs: []map[string]int64{
			mc("kind", 0, "coin", 0), mc("kind", 0, "coin", 1), mc("kind", 1, "coin", 2), mc("kind", 1, "coin", 1), mc("kind", 1, "coin", 2, "signerB", 1),
			mc("kind", 2, "signerB", 1), mc("kind", 2, "signerB", 1, "preVoted", 1), mc("kind", 2), mc("kind", 3, "signerB", 1), mc("kind", 3, "signerB", 1, "preVoted", 1), mc("kind", 3),
			// the earlier vote was committed and the node restarted before the second one
			mc("kind", 2, "signerB", 1, "preVoted", 2), mc("kind", 3, "signerB", 1, "preVoted", 2),
			mc("kind", 4), mc("kind", 4, "existingKey", 1), mc("kind", 5), mc("kind", 5, "signerB", 1), mc("kind", 6), mc("kind", 6, "dupOwners", 1), mc("kind", 7), mc("kind", 8), mc("kind", 8, "ownedByA", 1)},
			Bounds: "one CheckTx+DeliverTx per kind; amounts, weights, threshold, commission symbolic"}
		for _, id := range []string{"C05", "C20", "C22", "C17", "C27"} {
			add(id, ma, misc)
		}
		// the cross-cutting properties run a subset in the quick tier, the rest in thorough
		core := misc
		core.Configs = []map[string]int64{mc("kind", 0, "coin", 1), mc("kind", 1, "coin", 2), mc("kind", 2, "signerB", 1), mc("kind", 4), mc("kind", 6)}
		rest := misc
		rest.Tier = "thorough"
		for _, id := range []string{"C01", "C02", "C03", "C06", "C07"} {
			add(id, ma, core, rest)
		}
	}

	// ---------------------------------------------------------- AddLiquidity / RemoveLiquidity
	{
		lp := func(kv ...interface{}) map[string]int64 {
			return cfg(append([]interface{}{"pool10", 1, "lp10", 1, "concretePool", 1, "concreteLP", 1, "concretePrices", 1}, kv...)...)
		}
		la := append([]string{
			"liquidity harness: pool (bancor coin 1, base) with concrete reserves and a concrete pool-token supply (the liquidity arithmetic multiplies by it); volumes, limits and balances symbolic; fee in the base coin or in coin 1 (then converted through reserve or through this very pool, whichever the uninterpreted formula makes cheaper)",
			"amounts are read from the transaction's own tags and checked against the balance changes",
		}, txAssumptions...)
		lq := HSpec{Pkg: txPkg, Func: "VerifHarness_Liquidity_Deliver", Tier: "quick", Configs: []map[string]int64{lp("kind", 0, "gasCoin", 0), lp("kind", 0, "gasCoin", 1), lp("kind", 1, "gasCoin", 0), lp("kind", 1, "gasCoin", 1)},
			Bounds: "one CheckTx+DeliverTx of AddLiquidity by A / RemoveLiquidity by the pool-token holder B"}
		for _, id := range []string{"C13", "C22", "C15", "C01", "C02", "C03", "C05", "C06", "C07"} {
			add(id, la, lq)
		}
	}

	// ---------------------------------------------------------- coin registry transactions (C22)
	{
		rc := func(kv ...interface{}) map[string]int64 { return cfg(append([]interface{}{"concretePrices", 1}, kv...)...) }
		reg := HSpec{Pkg: txPkg, Func: "VerifHarness_CoinRegistry_Deliver", Tier: "quick", Configs: []map[string]int64{
			rc("kind", 0, "ticker", 0), rc("kind", 0, "ticker", 1), rc("kind", 1, "ticker", 0), rc("kind", 1, "ticker", 2),
			rc("kind", 2, "ticker", 1), rc("kind", 2, "ticker", 1, "signerB", 1), rc("kind", 2, "ticker", 0),
			rc("kind", 3, "ticker", 2), rc("kind", 3, "ticker", 2, "signerB", 1),
			rc("kind", 4, "ticker", 1), rc("kind", 4, "ticker", 2, "signerB", 1), rc("kind", 4, "ticker", 0),
			// the ownerless pool-token ticker can be recreated / re-owned by nobody
			rc("kind", 3, "ticker", 3, "pool10", 1, "lp10", 1, "concretePool", 1), rc("kind", 2, "ticker", 3, "pool10", 1, "lp10", 1, "concretePool", 1), rc("kind", 4, "ticker", 3, "pool10", 1, "lp10", 1, "concretePool", 1)},
			Bounds: "one CheckTx+DeliverTx of CreateCoin / CreateToken / RecreateCoin / RecreateToken / EditCoinOwner for a free ticker or the existing tickers, by the ticker owner or another account; amounts, reserve, max supply, crr symbolic; one recreation (version 1), repeated recreation outside the bound"}
		// the same with an arbitrary price table (zero entries included): the fee of
		// each type is its own table entry, the ticker fee is burned
		regSym := HSpec{Pkg: txPkg, Func: "VerifHarness_CoinRegistry_Deliver", Tier: "quick", Configs: []map[string]int64{
			cfg("kind", 0, "ticker", 0), cfg("kind", 1, "ticker", 0), cfg("kind", 2, "ticker", 1), cfg("kind", 3, "ticker", 2), cfg("kind", 4, "ticker", 1)},
			Bounds: "as above with a symbolic price table and gas price"}
		for _, id := range []string{"C27", "C03", "C06", "C22"} {
			add(id, txAssumptions, regSym)
		}
		// price table denominated in the token: the ticker fee and the type fee are
		// converted through the (token, base) pool, gas price symbolic
		add("C27", txAssumptions, HSpec{Pkg: txPkg, Func: "VerifHarness_CoinRegistry_Deliver", Tier: "quick", Configs: []map[string]int64{
			cfg("kind", 1, "ticker", 0, "priceCoin", 2, "pool20", 1, "concretePool", 1, "concretePrices", 1, "symGasPrice", 1),
			cfg("kind", 0, "ticker", 0, "priceCoin", 2, "pool20", 1, "concretePool", 1, "concretePrices", 1, "symGasPrice", 1)},
			Bounds: "CreateToken / CreateCoin with the price table in a custom coin; concrete table and pool, symbolic gas price"})
		add("C27", txAssumptions, reg)
		for _, id := range []string{"C22", "C01", "C02", "C03", "C05", "C06", "C07"} {
			add(id, txAssumptions, reg)
		}
	}

	// ---------------------------------------------------------- C15 slippage limits and result tags
	{
		cp := func(kv ...interface{}) map[string]int64 { return cfg(append([]interface{}{"concretePrices", 1}, kv...)...) }
		pp := func(kv ...interface{}) map[string]int64 {
			return cfg(append([]interface{}{"concretePrices", 1, "pool20", 1, "concretePool", 1}, kv...)...)
		}
		c15a := append([]string{
			"two-coin routes only (bancor coin <-> base; token <-> base through one pool, in both directions), gas coin = base coin or the traded custom coin (so that the commission conversion moves the very reserve / pool the trade uses); routes of 3..5 coins are outside the bound",
			"pool trades: concrete pool reserves; BuySwapPool with the amount to buy taken from a few concrete values (the buy formula divides by a symbolic reserve difference otherwise: unknown in all back ends after 12 minutes), maximum to sell / minimum to buy, balances symbolic",
			"result tags are compared as decimal strings of symbolic integers (tx.return, tx.sell_amount, tx.commission_amount)",
		}, txAssumptions...)
		bancorQ := HSpec{Pkg: txPkg, Func: "VerifHarness_Bancor_Deliver", Tier: "quick", Configs: []map[string]int64{
			cp("kind", 0, "gasCoin", 0), cp("kind", 0, "gasCoin", 1), cp("kind", 1, "gasCoin", 0), cp("kind", 1, "gasCoin", 1, "reverse", 1), cp("kind", 2, "gasCoin", 0), cp("kind", 2, "gasCoin", 1, "reverse", 1)},
			Bounds: "one CheckTx+DeliverTx of SellCoin / BuyCoin / SellAllCoin between the bancor coin and the base coin; amounts, limits, balances symbolic; formula as UF"}
		bancorT := HSpec{Pkg: txPkg, Func: "VerifHarness_Bancor_Deliver", Tier: "thorough", Configs: []map[string]int64{
			cp("kind", 0, "gasCoin", 0, "reverse", 1), cp("kind", 0, "gasCoin", 1, "reverse", 1), cp("kind", 1, "gasCoin", 1), cp("kind", 1, "gasCoin", 0, "reverse", 1), cp("kind", 2, "gasCoin", 1), cp("kind", 2, "gasCoin", 0, "reverse", 1),
			cfg("kind", 0, "gasCoin", 0), cfg("kind", 1, "gasCoin", 0)},
			Bounds: "remaining direction / gas-coin combinations; symbolic price table"}
		buyQ := HSpec{Pkg: txPkg, Func: "VerifHarness_BuyPool_Deliver", Tier: "quick", Configs: []map[string]int64{
			pp("gasCoin", 0, "buyValue", 10), pp("gasCoin", 2, "buyValue", 250), pp("gasCoin", 2, "reverse", 1, "buyValue", 3), pp("gasCoin", 0, "reverse", 1, "buyValue", 77)},
			Bounds: "one CheckTx+DeliverTx of BuySwapPool over pool (token, base); amount to buy concrete, maximum to sell symbolic"}
		sellQ := HSpec{Pkg: txPkg, Func: "VerifHarness_SellPool_Deliver", Tier: "quick", Configs: []map[string]int64{pp("gasCoin", 0), pp("gasCoin", 2)},
			Bounds: "one CheckTx+DeliverTx of SellSwapPool token->base; amount to sell and minimum symbolic"}
		sellT := HSpec{Pkg: txPkg, Func: "VerifHarness_SellPool_Deliver", Tier: "thorough", Configs: []map[string]int64{pp("gasCoin", 0, "reverse", 1), pp("gasCoin", 2, "reverse", 1)},
			Bounds: "base->token"}
		route5 := HSpec{Pkg: txPkg, Func: "VerifHarness_SellAllPool_Deliver", Tier: "quick", Configs: []map[string]int64{
			pp("route5", 1, "concreteBalA", 1, "gasCoinField", 0), pp("route5", 2, "concreteBalA", 1, "gasCoinField", 0)},
			Bounds: "SellAllSwapPool over the cyclic 5-coin route token->X->Y->token->base (4 concrete pools, the commission pool is the last hop); sender balances concrete, minimum to buy and the other accounts symbolic"}
		add("C15", c15a, bancorQ, bancorT, buyQ, sellQ, sellT, route5)
		// the bancor coin also has a pool with the base coin: the commission is paid
		// through whichever of reserve and pool is cheaper
		bancorPool := HSpec{Pkg: txPkg, Func: "VerifHarness_Bancor_Deliver", Tier: "quick", Configs: []map[string]int64{
			cp("kind", 1, "gasCoin", 1, "reverse", 1, "pool10", 1, "concretePool", 1), cp("kind", 0, "gasCoin", 1, "pool10", 1, "concretePool", 1),
			// selling the base coin for the bancor coin with the fee paid in the coin being bought
			cp("kind", 0, "gasCoin", 1, "reverse", 1)},
			Bounds: "BuyCoin / SellCoin of the bancor coin paid in that coin while it also has a (concrete) pool with the base coin"}
		for _, id := range []string{"C01", "C02", "C03", "C15", "C27"} {
			add(id, c15a, bancorPool)
		}
		for _, id := range []string{"C01", "C02", "C03", "C05", "C06", "C07"} {
			add(id, c15a, buyQ)
			b := bancorQ
			b.Configs = b.Configs[:4]
			add(id, c15a, b)
			st := sellQ
			st.Tier = "thorough"
			add(id, c15a, st, bancorT)
		}
	}

	// ---------------------------------------------------------- C14 limit orders
	{
		c14a := append([]string{
			"state-level step over the real SwapV2 / PairV2 order code inside a full State: a pool 10000/10000 with a concrete book of resting orders (1..3 orders, two price levels, two orders at one price with different ids, optionally inserted against priority order), committed or not; the taker's amount is symbolic in (0, 100000] coins; then cancel (twice) or expiry (twice) in the same block",
			"order prices are executed bit-exactly by Go's own big.Float on the concrete book; the taker-dependent arithmetic is symbolic (big.Rat / big.Float over exact reals)",
			"books of more than 3 orders, the paged on-disk index (loading in pages of 10 ids) and interleavings over several blocks are outside the bound; owner-only cancellation is a transaction-level gate (RemoveLimitOrder), not part of this harness",
			"a feasibility query answered unknown makes the engine explore both sides (over-approximation, counted in the evidence)",
		}, commonAssumptions...)
		oc := func(kv ...interface{}) map[string]int64 { return cfg(kv...) }
		add("C14", c14a,
			HSpec{Pkg: "coreV2/state", Func: "VerifHarness_C14_FillThenClose", Tier: "quick", Configs: []map[string]int64{
				oc("orders", 1, "commit", 1, "close", 0), oc("orders", 1, "commit", 1, "close", 1), oc("orders", 2, "commit", 1, "close", 0),
				// a non-best order cancelled in a block of its own before the trade
				oc("orders", 3, "commit", 1, "close", 0, "cancelSecond", 1)},
				Bounds: "1 or 2 resting orders, committed; taker amount symbolic; cancel / expire in the block of the fill"},
			HSpec{Pkg: "coreV2/state", Func: "VerifHarness_C14_FillThenClose", Tier: "thorough", Configs: []map[string]int64{
				oc("orders", 2, "commit", 1, "close", 1), oc("orders", 2, "commit", 0), oc("orders", 3, "commit", 1, "close", 0), oc("orders", 3, "commit", 1, "close", 1), oc("orders", 3, "commit", 0, "reverseInsert", 1)},
				Bounds: "up to 3 resting orders (two at one price), committed or not, inserted in or against priority order"})
		add("C01", c14a, HSpec{Pkg: "coreV2/state", Func: "VerifHarness_C14_FillThenClose", Tier: "quick", Configs: []map[string]int64{oc("orders", 1, "commit", 1, "close", 0)},
			Bounds: "1 resting order partly filled by a symbolic taker amount and cancelled in the same block: the refund is the remaining escrow"})
		add("C07", c14a, HSpec{Pkg: "coreV2/state", Func: "VerifHarness_C14_FillThenClose", Tier: "quick", Configs: []map[string]int64{oc("orders", 2, "commit", 1, "close", 0)},
			Bounds: "2 resting orders; taker amount symbolic; no panic"})
	}

	// ---------------------------------------------------------- RemoveLimitOrder (C14 owner gate / refund, C06, C05)
	{
		oa := append([]string{
			"orders extension of the transaction universe: two committed resting orders in pool (token, base) with concrete volumes (A's small order at a price better than the pool's, B's far from it); the ledger oracle counts their escrow; a failure fee converted through a pool with orders may pay order owners (increase only)",
		}, txAssumptions...)
		op := func(kv ...interface{}) map[string]int64 {
			return cfg(append([]interface{}{"pool20", 1, "concretePool", 1, "concretePrices", 1}, kv...)...)
		}
		roQ := HSpec{Pkg: txPkg, Func: "VerifHarness_RemoveOrder_Deliver", Tier: "quick", Configs: []map[string]int64{op("gasCoin", 0, "order", 0), op("gasCoin", 0, "order", 0, "signerB", 1), op("gasCoin", 0, "order", 1, "signerB", 1)},
			Bounds: "one CheckTx+DeliverTx of RemoveLimitOrder by the owner or by another account, fee in the base coin, then a second cancellation"}
		roPool := HSpec{Pkg: txPkg, Func: "VerifHarness_RemoveOrder_Deliver", Tier: "quick", Configs: []map[string]int64{op("gasCoin", 2, "order", 0)},
			Bounds: "as above with the fee paid in the token: the commission swap goes through the order's own pool and fills the order"}
		for _, id := range []string{"C14", "C05", "C01", "C02", "C03"} {
			add(id, oa, roQ)
			t := roPool
			t.Tier = "thorough"
			add(id, oa, t)
		}
		for _, id := range []string{"C06", "C07"} {
			add(id, oa, roQ, roPool)
		}
		ao := HSpec{Pkg: txPkg, Func: "VerifHarness_AddOrder_Deliver", Tier: "quick", Configs: []map[string]int64{op("sellToken", 0), op("sellToken", 1)},
			Bounds: "one CheckTx+DeliverTx of AddLimitOrder by A in pool (token, base); both volumes symbolic, fee in the base coin"}
		for _, id := range []string{"C14", "C05", "C01", "C02", "C03", "C06", "C07"} {
			add(id, oa, ao)
		}
	}

	// ---------------------------------------------------------- C11 export / import, C21 checks
	{
		c11 := HSpec{Pkg: "coreV2/state", Func: "VerifHarness_C11_ExportImport", Tier: "quick", Configs: []map[string]int64{cfg("concrete", 0)},
			Bounds: "one populated state (3 accounts + multisig, 2 coins, 2 candidates x 3 stakes, validators, 3 frozen items incl. a pending move, 2 waitlist entries, halt and update votes, 2 used checks, 2 pools, 2 orders, price table); balances, frozen funds, waitlist, coin reserve, slashed symbolic; the first byte of one used-check hash symbolic (all 256 values); committed, exported, verified, imported into an empty chain, committed, exported again"}
		add("C11", append([]string{
			"export at one height of one populated universe (not every history): stakes, pool reserves and order volumes are concrete (they drive control flow / float-encoded keys); deleted candidates, commission votes, locked stakes, block-listed keys are outside the universe",
			"the fields cmd/minter export adds from the app DB (emission, previous reward, versions) are set by the harness; amino JSON marshalling of the genesis is not executed",
			"'the new chain behaves like the original for subsequent transactions' is checked through every module getter of the harness view, not by running transactions on both",
		}, commonAssumptions...), c11)
		add("C21", commonAssumptions, c11)
		add("C07", commonAssumptions, c11)
		add("C04", commonAssumptions, c11) // the nonce of an emptied account survives export/import
		redeem := func(kv ...interface{}) map[string]int64 {
			return cfg(append([]interface{}{"concretePrices", 1}, kv...)...)
		}
		c21a := append([]string{
			"check cryptography abstracted: the issuer is identified by R of the check signature (signer table, as for transactions); lock and proof are abstract signatures [marker, key id, signed hash]: Ecrecover yields the key's public key when the embedded hash is the one recovered against and an unrelated key otherwise (ECDSA recovery up to negligible probability); natively the same harness signs with real secp256k1 keys",
			"keccak(rlp(x)) is an injective-by-construction digest of the RLP-visible content",
			"harness choices: right/wrong password, proof for the redeemer/for another address, fresh/used check, issuer = another account or the redeemer itself, transaction gas coin equal to / different from the check's; check value, due block, chain id, nonces, gas price, balances symbolic",
		}, txAssumptions...)
		rq := HSpec{Pkg: txPkg, Func: "VerifHarness_C21_Redeem", Tier: "quick", Configs: []map[string]int64{
			redeem("coin", 0, "gasCoin", 0), redeem("coin", 1, "gasCoin", 0), redeem("coin", 0, "gasCoin", 0, "used", 1), redeem("coin", 0, "gasCoin", 0, "used", 2),
			redeem("coin", 0, "gasCoin", 0, "selfIssued", 1), redeem("coin", 0, "gasCoin", 0, "txGasCoinOther", 1), redeem("coin", 1, "gasCoin", 1),
		}, Bounds: "one CheckTx+DeliverTx of RedeemCheck plus a second redemption attempt; concrete price table"}
		rt := HSpec{Pkg: txPkg, Func: "VerifHarness_C21_Redeem", Tier: "thorough", Configs: []map[string]int64{
			cfg("coin", 0, "gasCoin", 0), cfg("coin", 2, "gasCoin", 1), cfg("coin", 1, "gasCoin", 1, "used", 1), cfg("coin", 2, "gasCoin", 0, "selfIssued", 1),
		}, Bounds: "as above with a symbolic price table / further coin combinations; pool-priced gas coins are outside (non-linear failed-fee path: see C07_FailedTxPoolFee)"}
		for _, id := range []string{"C21", "C01", "C02", "C03", "C04", "C05", "C06", "C07", "C27"} {
			add(id, c21a, rq)
		}
		add("C21", c21a, rt)
	}

	// ---------------------------------------------------------- C23 encodings and signature gates
	{
		c23a := append([]string{
			"byte layer: the real rlp.Stream (Kind/readKind/readUint/Bytes/Uint/List/ListEnd) and the real encbuf primitives (encodeString/encodeUint/list/listEnd/toBytes/putint/puthead) run over a buffer of n arbitrary bytes; the reflective struct layer on top (typeinfo, decodeBigInt's leading-zero check, struct tags) cannot be encoded (package reflect) and is outside the claim",
			"strings of 56 bytes or more (long-form headers accepted) are outside the byte bound; the long-form rejection for short sizes is inside",
			"signature gates: real bodies of transaction.RecoverPlain, check.recoverPlain and crypto.ValidateSignatureValues with R, S, V arbitrary non-negative integers (V < 2^500); the curve arithmetic of crypto.Ecrecover (btcec) is an arbitrary outcome, so 'the recovered sender is exactly the key that signed' is by contract of btcec, not decided here",
			"hash coverage: rlpHash is replaced by an injective-by-construction digest of the RLP-visible content of its argument; what is decided is which fields Transaction.Hash, Check.Hash and Check.HashWithoutLock feed to it (keccak collision resistance by contract)",
		}, commonAssumptions...)
		ns := func(vals ...int) []map[string]int64 {
			var out []map[string]int64
			for _, v := range vals {
				out = append(out, cfg("n", v))
			}
			return out
		}
		realTx := gosym.HarnessOpts{RealBodies: []string{modulePath + "/coreV2/transaction.RecoverPlain"}}
		add("C23", c23a,
			HSpec{Pkg: "rlp", Func: "VerifHarness_C23_StreamBytes", Tier: "quick", Configs: ns(1, 2, 3, 5, 9), Bounds: "every buffer of n bytes, n as configured (<= 9)"},
			HSpec{Pkg: "rlp", Func: "VerifHarness_C23_StreamUint", Tier: "quick", Configs: ns(1, 2, 4, 6), Bounds: "every buffer of n bytes (<= 6)"},
			HSpec{Pkg: "rlp", Func: "VerifHarness_C23_StreamUint", Tier: "thorough", Configs: ns(9), Bounds: "every buffer of 9 bytes (all integer widths up to uint64)"},
			HSpec{Pkg: "rlp", Func: "VerifHarness_C23_StreamListReencode", Tier: "quick", Configs: ns(1, 3, 5), Bounds: "every buffer of n bytes (<= 5) read as a list of up to 3 strings"},
			HSpec{Pkg: "rlp", Func: "VerifHarness_C23_StreamListReencode", Tier: "thorough", Configs: ns(7, 8), Bounds: "every buffer of 7 and 8 bytes"},
			HSpec{Pkg: "rlp", Func: "VerifHarness_C23_EncodeDecodeUint", Tier: "quick", Configs: []map[string]int64{cfg("bits", 40)}, Bounds: "every integer below 2^40 (wider integers: decided in the decode direction by StreamUint; the encode->decode query is unknown in all back ends from 48 bits)"},
			HSpec{Pkg: txPkg, Func: "VerifHarness_C23_RecoverGates", Tier: "quick", Opts: realTx, Bounds: "R, S unbounded non-negative, V < 2^500"},
			HSpec{Pkg: txPkg, Func: "VerifHarness_C23_HashCoversFields", Tier: "quick", Bounds: "one changed field at a time, numeric deltas 1..200 symbolic"},
			HSpec{Pkg: "coreV2/check", Func: "VerifHarness_C23_CheckRecoverGates", Tier: "quick", Opts: gosym.HarnessOpts{RealBodies: []string{modulePath + "/coreV2/check.recoverPlain"}}, Bounds: "R, S unbounded non-negative, V < 2^500"},
			HSpec{Pkg: "coreV2/check", Func: "VerifHarness_C23_CheckHashCoversFields", Tier: "quick", Bounds: "one changed field at a time"},
			HSpec{Pkg: txPkg, Func: "VerifHarness_C23_TrailingBytesRejected", Tier: "quick", Configs: []map[string]int64{cfg("concretePrices", 1)},
				Bounds: "box level: a signed Send with one byte appended to SignatureData or to the whole encoding, delivered to RunTx from an arbitrary ledger (DecodeBytes rejects trailing input, Decode from a reader does not: the model keeps that difference)"},
			HSpec{Pkg: "coreV2/check", Func: "VerifHarness_C23_CheckTrailingBytesRejected", Tier: "quick", Bounds: "box level: a check with one byte appended"})
		add("C07", c23a[:2],
			HSpec{Pkg: "rlp", Func: "VerifHarness_C07_StreamList", Tier: "quick", Configs: ns(1, 2, 4, 6), Bounds: "every buffer of n bytes (<= 6): list header, two strings, list end; no panic"},
			HSpec{Pkg: "rlp", Func: "VerifHarness_C07_StreamList", Tier: "thorough", Configs: ns(9), Bounds: "every buffer of 9 bytes"},
			HSpec{Pkg: "rlp", Func: "VerifHarness_C23_StreamBytes", Tier: "quick", Configs: ns(3, 9), Bounds: "every buffer of n bytes; no panic"},
			HSpec{Pkg: "rlp", Func: "VerifHarness_C23_StreamUint", Tier: "quick", Configs: ns(4, 6), Bounds: "every buffer of n bytes; no panic"})
	}
}
