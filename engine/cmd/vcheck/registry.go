package main

import "verif/engine/gosym"

type HSpec struct {
	Pkg     string
	Func    string
	Tier    string // "quick": both tiers; "thorough": thorough only
	Configs []map[string]int64
	Opts    gosym.HarnessOpts
	Bounds  string
}

type Check struct {
	ID          string
	Harnesses   []HSpec
	Assumptions []string
}

var registry = map[string]*Check{}

func cfgs(name string, vals ...int64) []map[string]int64 {
	var out []map[string]int64
	for _, v := range vals {
		out = append(out, map[string]int64{name: v})
	}
	return out
}

var nia = []gosym.BackendSpec{gosym.Z3New, gosym.CVC5, gosym.Z3Old}

const swapPkg = "coreV2/state/swap"

var commonAssumptions = []string{
	"single goroutine: sync primitives are no-ops (C25 is not claimed)",
	"cosmos/iavl and tm-db are correct key-value stores (TreeModel/KVModel); SaveVersion is atomic",
	"math/big follows the semantics fixed in DESIGN.md appendix B (validated per run against the native build on sampled path models)",
	"fmt/log/strconv formatting has no effect on consensus state",
}

func init() {
	registry["C13"] = &Check{ID: "C13", Assumptions: append([]string{
		"pre-state of a pool: both reserves > 0 (re-established by every harness as a post-condition), LP supply > minimum liquidity",
		"big.Int.Sqrt by contract r*r <= x < (r+1)^2",
	}, commonAssumptions...), Harnesses: []HSpec{
		{Pkg: swapPkg, Func: "VerifHarness_C13_SellKeepsK", Tier: "quick", Configs: cfgs("reversed", 0, 1), Opts: gosym.HarnessOpts{Backends: nia}, Bounds: "reserves and amount: unbounded positive integers"},
		{Pkg: swapPkg, Func: "VerifHarness_C13_BuyKeepsK", Tier: "quick", Configs: cfgs("reversed", 0, 1), Opts: gosym.HarnessOpts{Backends: nia}, Bounds: "unbounded positive integers"},
		{Pkg: swapPkg, Func: "VerifHarness_C13_CheckSwapGuardsSwap", Tier: "quick", Opts: gosym.HarnessOpts{Backends: nia}, Bounds: "unbounded non-negative integers"},
		{Pkg: swapPkg, Func: "VerifHarness_C13_MintBurn", Tier: "quick", Opts: gosym.HarnessOpts{Backends: nia}, Bounds: "unbounded positive integers"},
		{Pkg: swapPkg, Func: "VerifHarness_C13_BurnShare", Tier: "quick", Opts: gosym.HarnessOpts{Backends: nia}, Bounds: "unbounded positive integers"},
		{Pkg: swapPkg, Func: "VerifHarness_C13_CreateLocksBound", Tier: "quick", Opts: gosym.HarnessOpts{Backends: nia}, Bounds: "unbounded positive integers; sqrt by contract"},
	}}
}
