package main

import "verif/engine/gosym"

type HSpec struct {
	Pkg     string
	Func    string
	Tier    string // "quick": both tiers; "thorough": thorough only
	Configs []map[string]int64
	Opts    gosym.HarnessOpts
	Bounds  string
}

type Check struct {
	ID           string
	Harnesses    []HSpec
	Assumptions  []string
	ReportPanics bool // C07: panic paths of the harnesses are this check's violations
}

var registry = map[string]*Check{}

func cfgs(name string, vals ...int64) []map[string]int64 {
	var out []map[string]int64
	for _, v := range vals {
		out = append(out, map[string]int64{name: v})
	}
	return out
}

var nia = []gosym.BackendSpec{gosym.Z3New, gosym.CVC5, gosym.Z3Old}

const swapPkg = "coreV2/state/swap"
const txPkg = "coreV2/transaction"

func cfg(kv ...interface{}) map[string]int64 {
	m := map[string]int64{}
	for i := 0; i+1 < len(kv); i += 2 {
		m[kv[i].(string)] = int64(kv[i+1].(int))
	}
	return m
}

var txAssumptions = append([]string{
	"pre-state = arbitrary non-negative ledger over the harness universe (accounts A,B,zero; base coin, bancor coin 1, token 2; optional pools) in which every custom coin's volume equals the sum of its holdings, volume <= max supply, bancor reserve >= minimum: the representation invariant AppState.Verify demands of a genesis",
	"balances are strictly positive except where a config makes one zeroable (a zero balance is a different account shape)",
	"signature recovery abstracted: signer identity is a harness input (the signature gate itself is C23's subject); transaction hash opaque",
	"bancor formulas are uninterpreted functions under the contract result>=0, sale return<=reserve, zero->zero, sell-all=reserve (C12 establishes it for formula.go modulo math.Pow)",
	"rlp struct layer as field box (faithful and injective on exported fields)",
}, commonAssumptions...)

// sendConfigs: gas coin / sent coin / pool configurations of the Send harness.
var sendQuick = []map[string]int64{
	cfg("gasCoin", 0, "coin", 0),
	cfg("gasCoin", 0, "coin", 1, "zeroable", 0, "zeroableOn", 1),
	cfg("gasCoin", 1, "coin", 1),
	cfg("gasCoin", 1, "coin", 0, "toSelf", 1),
}
var sendPool = []map[string]int64{
	cfg("gasCoin", 1, "coin", 0, "pool10", 1),
	cfg("gasCoin", 2, "coin", 1, "pool20", 1),
}

var commonAssumptions = []string{
	"single goroutine: sync primitives are no-ops (C25 is not claimed)",
	"cosmos/iavl and tm-db are correct key-value stores (TreeModel/KVModel); SaveVersion is atomic",
	"math/big follows the semantics fixed in DESIGN.md appendix B (validated per run against the native build on sampled path models)",
	"fmt/log/strconv formatting has no effect on consensus state",
}

func txCheck(id string, quick, thorough []HSpec, extra ...string) {
	var hs []HSpec
	for _, h := range quick {
		h.Tier = "quick"
		hs = append(hs, h)
	}
	for _, h := range thorough {
		h.Tier = "thorough"
		hs = append(hs, h)
	}
	registry[id] = &Check{ID: id, Harnesses: hs, Assumptions: append(extra, txAssumptions...), ReportPanics: id == "C07"}
}

func init() {
	send := HSpec{Pkg: txPkg, Func: "VerifHarness_Send_Deliver", Configs: sendQuick, Bounds: "one CheckTx+DeliverTx of Send; every amount, nonce, gas price, chain id symbolic (unbounded integers / full machine width)"}
	sendP := HSpec{Pkg: txPkg, Func: "VerifHarness_Send_Deliver", Configs: sendPool, Opts: gosym.HarnessOpts{MaxPaths: 1500}, Bounds: "as above with the commission paid through a swap pool; path bound 1500"}
	for _, id := range []string{"C01", "C02", "C03", "C04", "C05", "C06", "C07", "C27"} {
		txCheck(id, []HSpec{send}, []HSpec{sendP})
	}
	registry["C09"] = &Check{ID: "C09", Assumptions: append([]string{
		"app-DB layer: the key-value store under AppDB is a correct durable map (KVModel); rlp and tmjson as field boxes",
		"emission > 0 (a zero emission is stored as an empty value, which the reader cannot tell from an absent one; genesis emission is positive on every deployed chain)",
		"block heights and block times are concrete in this harness (their fixed-width encodings are not the subject)",
		"the app-DB block of Blockchain.Commit is mirrored by the harness as SetLastBlockHash, SetLastHeight, FlushValidators, SaveBlocksTime, SaveVersions, SaveEmission, SavePrice",
	}, commonAssumptions...), Harnesses: []HSpec{
		{Pkg: "coreV2/appdb", Func: "VerifHarness_C09_AppDB", Tier: "quick", Configs: []map[string]int64{
			cfg("restart", 0), cfg("restart", 1), cfg("restart", 1, "newPrice", 1), cfg("restart", 0, "newVersion", 1, "newValidators", 1), cfg("restart", 1, "newVersion", 1, "newValidators", 1),
		}, Bounds: "genesis block + one block, with or without a restart in between; emission, price reserves, last reward: unbounded integers"},
	}}
	c20 := func(fn string, tier string, vals ...int) HSpec {
		var cs []map[string]int64
		for _, v := range vals {
			if v < 0 { // negative: also explore present / absent / missing-from-commit statuses
				cs = append(cs, cfg("validators", -v, "statuses", 1))
			} else {
				cs = append(cs, cfg("validators", v))
			}
		}
		return HSpec{Pkg: "coreV2/minter", Func: fn, Tier: tier, Configs: cs, Bounds: "validators as configured, every stake an unbounded positive integer, every vote pattern; big.Float as exact reals (the float64 constant 2./3. is exact; the 64-bit rounding of the quotient is outside this harness and covered by native replay of each counterexample)"}
	}
	registry["C20"] = &Check{ID: "C20", Assumptions: append([]string{
		"all validators are recorded present in the block (presence is handled by calculatePowers, which the harness runs)",
		"math/big.Float modelled over exact reals in this harness (FloatMode real)",
	}, commonAssumptions...), Harnesses: []HSpec{
		c20("VerifHarness_C20_Halt", "quick", 2, 3, -2),
		c20("VerifHarness_C20_Commission", "quick", 2, -2),
		c20("VerifHarness_C20_Network", "quick", 2),
		c20("VerifHarness_C20_Halt", "thorough", -3),
		c20("VerifHarness_C20_Commission", "thorough", 3, -3),
		c20("VerifHarness_C20_Network", "thorough", 3, -2, -3),
	}}
	registry["C13"] = &Check{ID: "C13", Assumptions: append([]string{
		"pre-state of a pool: both reserves > 0 (re-established by every harness as a post-condition), LP supply > minimum liquidity",
		"big.Int.Sqrt by contract r*r <= x < (r+1)^2",
	}, commonAssumptions...), Harnesses: []HSpec{
		{Pkg: swapPkg, Func: "VerifHarness_C13_SellKeepsK", Tier: "quick", Configs: cfgs("reversed", 0, 1), Opts: gosym.HarnessOpts{Backends: nia}, Bounds: "reserves and amount: unbounded positive integers"},
		{Pkg: swapPkg, Func: "VerifHarness_C13_BuyKeepsK", Tier: "quick", Configs: cfgs("reversed", 0, 1), Opts: gosym.HarnessOpts{Backends: nia}, Bounds: "unbounded positive integers"},
		{Pkg: swapPkg, Func: "VerifHarness_C13_CheckSwapGuardsSwap", Tier: "quick", Opts: gosym.HarnessOpts{Backends: nia}, Bounds: "unbounded non-negative integers"},
		{Pkg: swapPkg, Func: "VerifHarness_C13_MintBurn", Tier: "quick", Opts: gosym.HarnessOpts{Backends: nia}, Bounds: "unbounded positive integers"},
		{Pkg: swapPkg, Func: "VerifHarness_C13_BurnShare", Tier: "quick", Opts: gosym.HarnessOpts{Backends: nia}, Bounds: "unbounded positive integers"},
		{Pkg: swapPkg, Func: "VerifHarness_C13_CreateLocksBound", Tier: "quick", Opts: gosym.HarnessOpts{Backends: nia}, Bounds: "unbounded positive integers; sqrt by contract"},
		{Pkg: swapPkg, Func: "VerifHarness_C13_SellWithOrders", Tier: "quick", Configs: []map[string]int64{cfg("orders", 0), cfg("orders", 1)}, Bounds: "concrete pool 10000/10000 BIP and concrete resting orders; taker amount symbolic in (0, 100000 BIP]; order prices are concrete big.Floats executed bit-exactly"},
		{Pkg: swapPkg, Func: "VerifHarness_C13_SellWithOrders", Tier: "thorough", Configs: []map[string]int64{cfg("orders", 2)}, Bounds: "as above with two order levels"},
	}}
}
