package main

import (
	"encoding/json"
	"fmt"
	"math/rand"
	"os"
	"path/filepath"
	"sort"
	"strconv"
	"strings"
	"time"

	"verif/engine/gosym"
)

type knownFinding struct {
	Property string `json:"property"`
	Status   string `json:"status"` // "open" or "fixed"
	Harness  string `json:"harness"`
	Label    string `json:"label"`
	PosHint  string `json:"pos_contains,omitempty"`
	What     string `json:"what"`
	Commit   string `json:"commit,omitempty"`
	Replay   string `json:"end_to_end_replay,omitempty"`
}

func loadKnown() []knownFinding {
	b, err := os.ReadFile(filepath.Join(verifDir, "known_findings.json"))
	if err != nil {
		return nil
	}
	var f struct {
		Findings []knownFinding `json:"findings"`
	}
	if err := json.Unmarshal(b, &f); err != nil {
		fmt.Fprintln(os.Stderr, "known_findings.json:", err)
		return nil
	}
	return f.Findings
}

func matchKnown(kf []knownFinding, prop, harness, label, pos string) *knownFinding {
	for i := range kf {
		k := &kf[i]
		if k.Status != "open" || k.Property != prop || k.Harness != harness || k.Label != label {
			continue
		}
		if k.PosHint != "" && !strings.Contains(pos, k.PosHint) {
			continue
		}
		return k
	}
	return nil
}

type harnessEvidence struct {
	Harness      string             `json:"harness"`
	Package      string             `json:"package"`
	Config       map[string]int64   `json:"config,omitempty"`
	Bounds       string             `json:"bounds"`
	Paths        int                `json:"paths"`
	Outcomes     map[string]int     `json:"outcomes"`
	Decisions    int                `json:"symbolic_decisions"`
	Obligations  int                `json:"obligations"`
	Discharged   int                `json:"discharged"`
	ReachWitness int                `json:"paths_reaching_an_assertion"`
	Queries      int                `json:"solver_queries"`
	SolverTimeS  map[string]float64 `json:"solver_time_s"`
	WallS        float64            `json:"wall_s"`
	Validated    int                `json:"native_runs_agreeing"`
	Inconclusive []string           `json:"inconclusive,omitempty"`
	AssumeCuts   int                `json:"paths_cut_by_assume"`
	OverApprox   int                `json:"paths_with_undecided_feasibility_explored_anyway,omitempty"`
}

func cmdRun(args []string) int {
	if len(args) < 1 {
		usage()
	}
	id := args[0]
	tier := os.Getenv("VERIF_TIER")
	for i := 1; i < len(args); i++ {
		if args[i] == "--tier" && i+1 < len(args) {
			tier = args[i+1]
			i++
		}
	}
	if tier == "" {
		tier = "quick"
	}
	seed := int64(1)
	if s := os.Getenv("VERIF_SEED"); s != "" {
		if n, err := strconv.ParseInt(s, 10, 64); err == nil {
			seed = n
		}
	}
	chk, ok := registry[id]
	if !ok {
		fmt.Fprintf(os.Stderr, "unknown property %s\n", id)
		return 2
	}
	t0 := time.Now()
	evPath := filepath.Join(verifDir, "evidence", id+".json")
	if d := os.Getenv("VERIF_EVIDENCE_DIR"); d != "" {
		evPath = filepath.Join(d, id+".json")
	}
	os.MkdirAll(filepath.Dir(evPath), 0o755)
	os.Remove(evPath)

	var specs []HSpec
	pkgSet := map[string]bool{}
	for _, h := range chk.Harnesses {
		if tier == "quick" && h.Tier != "quick" {
			continue
		}
		specs = append(specs, h)
		pkgSet[h.Pkg] = true
	}
	var pkgs []string
	for p := range pkgSet {
		pkgs = append(pkgs, p)
	}
	sort.Strings(pkgs)

	fail := func(msg string) int {
		fmt.Printf("CHECK-BROKEN property=%s %s\n", id, msg)
		writeEvidence(evPath, id, tier, seed, nil, nil, chk, time.Since(t0).Seconds(), 0, []string{"check could not run: " + msg}, nil, 0)
		return 2
	}

	e, err := loadEngine(pkgs)
	if err != nil {
		return fail("cannot load /repo with the harness overlay (the tree does not build, or a harness no longer matches it): " + err.Error())
	}
	nr := newNativeRunner()
	defer nr.cleanup()
	known := loadKnown()
	rng := rand.New(rand.NewSource(seed))

	var hev []harnessEvidence
	var samples []interface{}
	funcs := map[string]int{}
	stubs := map[string]int{}
	exit := 0
	nViol := 0
	var broken []string
	totalValidated := 0
	knownPrinted := map[string]bool{}
	otherProps := map[string]int{}

	for _, h := range specs {
		cfgs := h.Configs
		if len(cfgs) == 0 {
			cfgs = []map[string]int64{nil}
		}
		for _, cfg := range cfgs {
			opts := h.Opts
			opts.Config = cfg
			res, err := e.RunHarness(modulePath+"/"+h.Pkg, h.Func, &opts)
			if err != nil {
				return fail(err.Error())
			}
			printResult(res, os.Getenv("VERIF_VERBOSE") != "")
			he := harnessEvidence{Harness: h.Func, Package: h.Pkg, Config: cfg, Bounds: h.Bounds, Paths: len(res.Paths), Outcomes: res.Outcomes,
				Decisions: res.Decisions, Obligations: res.Obligations, Discharged: res.Discharged, Queries: res.Queries,
				SolverTimeS: res.SolverTime, WallS: res.WallS, Inconclusive: res.Inconclusive, AssumeCuts: res.AssumeCuts, OverApprox: res.OverApprox}
			for k, v := range res.FuncsEntered {
				if strings.Contains(k, modulePath) && !strings.Contains(k, "verif") && !strings.Contains(k, "Verif") {
					funcs[strings.ReplaceAll(k, modulePath+"/", "")] += v
				}
			}
			for k, v := range res.Stubs {
				stubs[k] += v
			}
			for _, p := range res.Paths {
				if len(p.Asserts) > 0 {
					he.ReachWitness++
				}
			}
			if len(res.Disagreements) > 0 {
				broken = append(broken, fmt.Sprintf("%s: solver disagreement: %v", h.Func, res.Disagreements))
			}
			if res.Outcomes["returned"] == 0 && len(res.Violations) == 0 {
				broken = append(broken, fmt.Sprintf("%s %v: no path returned (vacuous or unsupported)", h.Func, cfg))
			}
			if he.ReachWitness == 0 && len(res.Violations) == 0 {
				broken = append(broken, fmt.Sprintf("%s %v: no path reaches an assertion (reachability witness failed)", h.Func, cfg))
			}

			// ---- C08 mode: paths that differ only in map-iteration order must
			// produce the same ordered database writes
			if opts.MapOrders {
				groups := map[string][]gosym.PathResult{}
				for _, p := range res.Paths {
					if p.Outcome == "returned" {
						groups[p.DataTrace] = append(groups[p.DataTrace], p)
					}
				}
				nOrders := 0
				for _, g := range groups {
					nOrders += len(g)
					for _, p := range g[1:] {
						if d := firstDiff(g[0].Writes, p.Writes); d != "" {
							res.Violations = append(res.Violations, gosym.Violation{Kind: "order", Label: "C08:writes-independent-of-map-order",
								Pos: strings.Join(p.OrderChoices, " "), Trace: p.Trace, Model: p.Model,
								Msg: fmt.Sprintf("iteration orders [%s] and [%s] differ: %s", strings.Join(g[0].OrderChoices, " "), strings.Join(p.OrderChoices, " "), d)})
							break
						}
					}
				}
				he.Obligations += nOrders
				he.Discharged += nOrders
				res.Obligations += nOrders
				res.Discharged += nOrders
			}

			// ---- violations: replay natively before reporting
			seen := map[string]bool{}
			for _, v := range res.Violations {
				key := v.Kind + "|" + v.Label + "|" + v.Pos
				if seen[key] {
					continue
				}
				seen[key] = true
				// shared harnesses carry assertions of several properties,
				// labelled "Cxx:..."; each check reports only its own, and
				// panics are reported by the check that owns them (C07)
				if v.Kind == "assert" || v.Kind == "order" {
					if p := labelProp(v.Label); p != "" && p != id {
						otherProps[p+" "+v.Label]++
						continue
					}
				}
				if v.Kind == "panic" && !chk.ReportPanics {
					otherProps["C07 panic at "+v.Pos]++
					continue
				}
				if v.Model == nil {
					he.Inconclusive = append(he.Inconclusive, fmt.Sprintf("violation %s at %s has no model (solver unknown on model query)", v.Label, v.Pos))
					continue
				}
				rf := &replayFile{Property: id, Harness: h.Func, Package: h.Pkg, Config: cfg, Vars: v.Model, Kind: v.Kind, Label: v.Label, Pos: v.Pos, Msg: v.Msg, Trace: v.Trace}
				rp, err := writeReplay(filepath.Join(verifDir, "replays", id), rf)
				if err != nil {
					return fail(err.Error())
				}
				if v.Kind == "order" {
					// Go randomises map iteration per run: replay = run the native
					// harness repeatedly and compare the app hash it notes
					hashes := map[string]int{}
					for k := 0; k < 40 && len(hashes) < 2; k++ {
						nv, err := nr.run(h.Pkg, h.Func, rp)
						if err != nil {
							return fail(err.Error())
						}
						hashes[nv.Notes["native:apphash"]]++
					}
					if len(hashes) < 2 {
						he.Inconclusive = append(he.Inconclusive, fmt.Sprintf("order-dependent writes found by the engine (%s) did not show up as differing app hashes in 40 native runs", short(v.Msg, 200)))
						os.Remove(rp)
						continue
					}
					fmt.Printf("VIOLATION property=%s replay=%s\n", id, rp)
					fmt.Printf("  harness=%s config=%v kind=order %s (native: %d distinct app hashes over repeated runs)\n", h.Func, cfg, short(v.Msg, 400), len(hashes))
					nViol++
					exit = 1
					continue
				}
				if strings.HasPrefix(v.Label, "C25:no-map-race ") {
					// a predicted race is confirmed by Go's race detector on the
					// real code (same harness, its two threads in two goroutines)
					sides := strings.SplitN(strings.TrimPrefix(v.Label, "C25:no-map-race "), " ~ ", 2)
					fnOf := func(s string) string {
						f := strings.Fields(s)
						if len(f) >= 2 {
							return f[1]
						}
						return s
					}
					if len(sides) != 2 {
						broken = append(broken, "malformed race label "+v.Label)
						continue
					}
					ok, detail, err := nr.runRace(h.Pkg, h.Func, rp, fnOf(sides[0]), raceFns(sides[1]))
					if err != nil {
						return fail(err.Error())
					}
					if !ok {
						// a dynamic detector sees a race only in a run that leaves the two
						// accesses unordered: an unconfirmed prediction is not reported
						he.Inconclusive = append(he.Inconclusive, fmt.Sprintf("predicted race %q not confirmed by the race detector on the real code in 16 runs (%s)", v.Label, detail))
						os.Remove(rp)
						continue
					}
					if k := matchKnown(known, id, h.Func, v.Label, v.Pos+" "+v.Msg); k != nil {
						kk := k.Harness + "|" + k.Label + "|" + k.PosHint
						if !knownPrinted[kk] {
							fmt.Printf("KNOWN-FINDING: property=%s %s\n", id, k.What)
							knownPrinted[kk] = true
						}
						os.Remove(rp)
						continue
					}
					fmt.Printf("VIOLATION property=%s replay=%s\n", id, rp)
					fmt.Printf("  harness=%s config=%v kind=race label=%q pos=%s (%s)\n", h.Func, cfg, v.Label, v.Pos, detail)
					nViol++
					exit = 1
					continue
				}
				nv, err := nr.run(h.Pkg, h.Func, rp)
				if err != nil {
					return fail(err.Error())
				}
				if !reproduces(rf, nv) {
					broken = append(broken, fmt.Sprintf("%s: counterexample for %q does not reproduce natively (encoder or stub defect): native outcome %s %s failed=%v replay=%s", h.Func, v.Label, nv.Outcome, nv.Detail, nv.Failed, rp))
					continue
				}
				if k := matchKnown(known, id, h.Func, v.Label, v.Pos+" "+v.Msg); k != nil {
					kk := k.Harness + "|" + k.Label + "|" + k.PosHint
					if !knownPrinted[kk] {
						fmt.Printf("KNOWN-FINDING: property=%s %s\n", id, k.What)
						knownPrinted[kk] = true
					}
					os.Remove(rp)
					continue
				}
				fmt.Printf("VIOLATION property=%s replay=%s\n", id, rp)
				fmt.Printf("  harness=%s config=%v kind=%s label=%q pos=%s %s\n", h.Func, cfg, v.Kind, v.Label, v.Pos, short(v.Msg, 300))
				nViol++
				exit = 1
			}

			// ---- differential validation of sampled paths
			var cand []gosym.PathResult
			for _, p := range res.Paths {
				if p.Outcome == "returned" && p.Model != nil {
					cand = append(cand, p)
				}
			}
			rng.Shuffle(len(cand), func(a, b int) { cand[a], cand[b] = cand[b], cand[a] })
			nSample := 3
			if tier == "thorough" {
				nSample = 8
			}
			if len(cand) < nSample {
				nSample = len(cand)
			}
			for _, p := range cand[:nSample] {
				vars := map[string]string{}
				notes := map[string]string{}
				for k, v := range p.Model {
					if strings.HasPrefix(k, "note:") {
						notes[strings.TrimPrefix(k, "note:")] = v
					} else {
						vars[k] = v
					}
				}
				rf := &replayFile{Property: id, Harness: h.Func, Package: h.Pkg, Config: cfg, Vars: vars, Kind: "sample", Label: "sample", Trace: p.Trace}
				rp, err := writeReplay(filepath.Join(nr.dir, "samples"), rf)
				if err != nil {
					return fail(err.Error())
				}
				nv, err := nr.run(h.Pkg, h.Func, rp)
				if err != nil {
					return fail(err.Error())
				}
				agree := nv.Outcome == "returned"
				why := ""
				if !agree {
					why = "native outcome " + nv.Outcome + " " + nv.Detail
				}
				// assertions the engine discharged on this path must hold natively
				// (an assertion met while replaying a decision prefix is recorded by
				// the path that first met it, so the labels of paths sharing a prefix
				// with this one count as well)
				violatedHere := map[string]bool{}
				for _, q := range res.Paths {
					k := 0
					for k < len(q.Trace) && k < len(p.Trace) && q.Trace[k] == p.Trace[k] {
						k++
					}
					if k == 0 && len(q.Trace) > 0 && len(p.Trace) > 0 {
						continue
					}
					for _, a := range q.Asserts {
						if a.Status == "violated" || a.Status == "inconclusive" {
							violatedHere[a.Label] = true
						}
					}
				}
				for _, f := range nv.Failed {
					if !violatedHere[f] {
						agree = false
						why += " native failed assertion " + f
					}
				}
				for k, want := range notes {
					if strings.HasPrefix(k, "native:") {
						continue // values only meaningful in the native run (real hashes)
					}
					if got, ok := nv.Notes[k]; ok && normNums(got) != normNums(want) {
						agree = false
						why += fmt.Sprintf(" note %s: engine %s native %s", k, want, got)
					}
				}
				if !agree {
					keep, _ := writeReplay(filepath.Join(verifDir, "replays", id), rf)
					broken = append(broken, fmt.Sprintf("%s: differential validation mismatch on path %s (%s) replay=%s", h.Func, p.Trace, why, keep))
				} else {
					he.Validated++
					totalValidated++
				}
				if len(samples) < 6 {
					samples = append(samples, map[string]interface{}{"harness": h.Func, "config": cfg, "path": p.Trace, "outcome": p.Outcome, "model": vars, "notes": notes, "native": nv.Outcome})
				}
			}
			hev = append(hev, he)
		}
	}

	wall := time.Since(t0).Seconds()
	writeEvidence(evPath, id, tier, seed, hev, samples, chk, wall, nViol, broken, map[string]interface{}{"functions_encoded": funcs, "stubs": stubs, "violations_owned_by_other_checks": otherProps}, totalValidated)
	if len(broken) > 0 {
		for _, b := range broken {
			fmt.Printf("CHECK-BROKEN property=%s %s\n", id, b)
		}
		if exit == 0 {
			return 2
		}
	}
	if exit == 0 {
		fmt.Printf("OK property=%s tier=%s wall=%.1fs\n", id, tier, wall)
	}
	return exit
}

// firstDiff describes the first position where two write traces differ.
// normStores replaces the store identities ("tree:0xc0...", "db:0xc0...") in a
// write trace by their order of first appearance: identities are addresses of
// engine objects and differ between paths.
func normStores(w []string) []string {
	ids := map[string]int{}
	out := make([]string, len(w))
	for i, s := range w {
		if k := strings.Index(s, ":0x"); k >= 0 && k < 12 {
			end := k + 3
			for end < len(s) && strings.ContainsRune("0123456789abcdef", rune(s[end])) {
				end++
			}
			id, ok := ids[s[:end]]
			if !ok {
				id = len(ids)
				ids[s[:end]] = id
			}
			s = fmt.Sprintf("%s#%d%s", s[:k], id, s[end:])
		}
		out[i] = s
	}
	return out
}

func firstDiff(a, b []string) string {
	a, b = normStores(a), normStores(b)
	n := len(a)
	if len(b) < n {
		n = len(b)
	}
	for i := 0; i < n; i++ {
		if a[i] != b[i] {
			return fmt.Sprintf("write #%d: %s  vs  %s", i, short(a[i], 160), short(b[i], 160))
		}
	}
	if len(a) != len(b) {
		return fmt.Sprintf("%d writes vs %d writes", len(a), len(b))
	}
	return ""
}

// labelProp extracts the property id from a label of the form "Cxx:...".
func labelProp(label string) string {
	if len(label) >= 4 && label[0] == 'C' && label[3] == ':' && label[1] >= '0' && label[1] <= '9' && label[2] >= '0' && label[2] <= '9' {
		return label[:3]
	}
	return ""
}

func normNums(s string) string {
	parts := strings.Split(s, ",")
	for i, p := range parts {
		p = strings.TrimSpace(p)
		if strings.HasPrefix(p, "(- ") {
			p = "-" + strings.TrimSuffix(strings.TrimPrefix(p, "(- "), ")")
		}
		parts[i] = strings.TrimSpace(p)
	}
	return strings.Join(parts, ",")
}

func writeEvidence(path, id, tier string, seed int64, hev []harnessEvidence, samples []interface{}, chk *Check, wall float64, nViol int, broken []string, extra map[string]interface{}, validated int) {
	states, transitions, obligations, discharged := 0, 0, 0, 0
	solver := map[string]float64{}
	var inconclusive []string
	var bounds []string
	for _, h := range hev {
		states += h.Paths
		transitions += h.Decisions
		obligations += h.Obligations
		discharged += h.Discharged
		for k, v := range h.SolverTimeS {
			solver[k] += v
		}
		for _, s := range h.Inconclusive {
			inconclusive = append(inconclusive, h.Harness+": "+short(s, 300))
		}
		bounds = append(bounds, fmt.Sprintf("%s %v: %s", h.Harness, h.Config, h.Bounds))
	}
	if transitions == 0 && states > 0 {
		transitions = states // every explored path is at least one transition of the harness
	}
	if len(samples) == 0 {
		for _, h := range hev {
			samples = append(samples, map[string]interface{}{"harness": h.Harness, "config": h.Config, "outcomes": h.Outcomes})
			if len(samples) >= 3 {
				break
			}
		}
	}
	if len(samples) == 0 {
		samples = []interface{}{"no path explored"}
	}
	cov := map[string]interface{}{
		"states":                        states,
		"transitions":                   transitions,
		"traces_validated_against_impl": validated,
		"samples":                       samples,
		"obligations":                   obligations,
		"discharged":                    discharged,
		"harnesses":                     hev,
		"bounds":                        bounds,
		"solver_time_s":                 solver,
		"inconclusive":                  inconclusive,
		"broken":                        broken,
		"exhaustive":                    false,
		"explanation":                   "states = symbolic paths explored (each covers every input satisfying its path condition); transitions = symbolic branch decisions taken; obligations = assertion queries posed to the SMT portfolio; discharged = answered unsat; traces_validated_against_impl = sampled path models re-run natively (go test with the same harness source) whose outcome, assertions and noted observables agreed with the engine",
	}
	for k, v := range extra {
		cov[k] = v
	}
	ev := map[string]interface{}{
		"property_id": id,
		"tier":        tier,
		"seed":        seed,
		"level":       "model_checking",
		"coverage":    cov,
		"assumptions": chk.Assumptions,
		"wall_s":      wall,
		"violations":  nViol,
	}
	b, _ := json.MarshalIndent(ev, "", " ")
	os.WriteFile(path, b, 0o644)
}
