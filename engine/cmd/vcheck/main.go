// vcheck: runs the solver-based checks of /verif against /repo's working tree.
//
//	vcheck run <ID> [--tier quick|thorough]
//	vcheck harness <pkg> <func> [k=v ...] [-v]     (development aid)
//	vcheck replay <path>
//	vcheck list
package main

import (
	"crypto/sha256"
	"encoding/hex"
	"encoding/json"
	"fmt"
	"go/parser"
	"go/token"
	"os"
	"os/exec"
	"path/filepath"
	"regexp"
	"sort"
	"strconv"
	"strings"
	"time"

	"verif/engine/gosym"
)

const (
	verifDir   = "/verif"
	modulePath = "github.com/MinterTeam/minter-go-node"
)

// repoDir is the tree under verification.  Registered commands always use
// /repo; VERIF_REPO exists for tools/eval_seeds.sh, which evaluates seeded
// mutations on a scratch worktree so that /repo itself is never modified
// (evidence then goes to VERIF_EVIDENCE_DIR, not to /verif/evidence).
var repoDir = func() string {
	if d := os.Getenv("VERIF_REPO"); d != "" {
		return d
	}
	return "/repo"
}()

var goEnv = []string{"GOFLAGS=-mod=mod", "GOPROXY=off", "GOSUMDB=off", "GOTOOLCHAIN=local", "GONOSUMCHECK=1", "GONOSUMDB=*"}

func main() {
	if len(os.Args) < 2 {
		usage()
	}
	switch os.Args[1] {
	case "run":
		os.Exit(cmdRun(os.Args[2:]))
	case "harness":
		os.Exit(cmdHarness(os.Args[2:]))
	case "replay":
		os.Exit(cmdReplay(os.Args[2:]))
	case "list":
		ids := make([]string, 0, len(registry))
		for id := range registry {
			ids = append(ids, id)
		}
		sort.Strings(ids)
		for _, id := range ids {
			c := registry[id]
			fmt.Printf("%s: %d harness specs\n", id, len(c.Harnesses))
		}
	default:
		if _, ok := registry[os.Args[1]]; ok {
			os.Exit(cmdRun(os.Args[1:]))
		}
		usage()
	}
}

func usage() {
	fmt.Fprintln(os.Stderr, "usage: vcheck run <ID> [--tier quick|thorough] | harness <pkg> <func> [k=v] | replay <path> | list")
	os.Exit(2)
}

// ------------------------------------------------------------------ overlay

func pkgName(rel string) (string, error) {
	dir := filepath.Join(repoDir, rel)
	ents, err := os.ReadDir(dir)
	if err != nil {
		return "", err
	}
	fset := token.NewFileSet()
	for _, e := range ents {
		n := e.Name()
		if strings.HasSuffix(n, ".go") && !strings.HasSuffix(n, "_test.go") {
			f, err := parser.ParseFile(fset, filepath.Join(dir, n), nil, parser.PackageClauseOnly)
			if err == nil {
				return f.Name.Name, nil
			}
		}
	}
	return "", fmt.Errorf("no Go files in %s", dir)
}

// nativeMode is set while building the native replay binary: native-only stub
// files are included and the functions they wrap are renamed in a copy of the
// current source.
var nativeMode bool

// nativeRewrites: file (relative to /repo) -> function names renamed to
// verifReal<Name> in the native build so that a native_*.go stub can wrap them.
// Regenerated from the current source on every run; each definition must be
// found exactly once.
var nativeRewrites = map[string][]string{
	"formula/formula.go": {"CalculatePurchaseReturn", "CalculatePurchaseAmount", "CalculateSaleReturn", "CalculateSaleAmount"},
	"math/pow.go":        {"Pow"},
}

func applyNativeRewrites(files map[string][]byte) error {
	for rel, names := range nativeRewrites {
		p := filepath.Join(repoDir, rel)
		b, err := os.ReadFile(p)
		if err != nil {
			return err
		}
		src := string(b)
		for _, n := range names {
			old := "func " + n + "("
			if strings.Count(src, old) != 1 {
				return fmt.Errorf("native rewrite: definition of %s not found exactly once in %s", n, rel)
			}
			src = strings.Replace(src, old, "func verifReal"+n+"(", 1)
		}
		files[p] = []byte(src)
	}
	return nil
}

// harnessFiles returns virtual path -> content for package rel.
func harnessFiles(rel string) (map[string][]byte, []string, error) {
	out := map[string][]byte{}
	hdir := filepath.Join(verifDir, "harness", rel)
	ents, err := os.ReadDir(hdir)
	if err != nil {
		return nil, nil, err
	}
	var funcs []string
	re := regexp.MustCompile(`(?m)^func (VerifHarness_[A-Za-z0-9_]+)\(\)`)
	for _, e := range ents {
		if !strings.HasSuffix(e.Name(), ".go") {
			continue
		}
		if strings.HasPrefix(e.Name(), "native_") && !nativeMode {
			continue // native-only stubs (they redefine functions the engine intercepts)
		}
		b, err := os.ReadFile(filepath.Join(hdir, e.Name()))
		if err != nil {
			return nil, nil, err
		}
		out[filepath.Join(repoDir, rel, "zz_verif_"+e.Name())] = b
		for _, m := range re.FindAllSubmatch(b, -1) {
			funcs = append(funcs, string(m[1]))
		}
	}
	name, err := pkgName(rel)
	if err != nil {
		return nil, nil, err
	}
	tmpl, err := os.ReadFile(filepath.Join(verifDir, "harness", "rt.go.tmpl"))
	if err != nil {
		return nil, nil, err
	}
	out[filepath.Join(repoDir, rel, "zz_verif_rt.go")] = []byte(strings.Replace(string(tmpl), "package PKGNAME", "package "+name, 1))
	sort.Strings(funcs)
	return out, funcs, nil
}

// allHarnessPkgs lists every package directory that has harness/accessor files.
func allHarnessPkgs() []string {
	var out []string
	root := filepath.Join(verifDir, "harness")
	filepath.Walk(root, func(p string, info os.FileInfo, err error) error {
		if err != nil || info.IsDir() || !strings.HasSuffix(p, ".go") {
			return nil
		}
		rel, _ := filepath.Rel(root, filepath.Dir(p))
		if rel != "." && (len(out) == 0 || out[len(out)-1] != rel) {
			for _, o := range out {
				if o == rel {
					return nil
				}
			}
			out = append(out, rel)
		}
		return nil
	})
	sort.Strings(out)
	return out
}

// allOverlayFiles returns the overlay for every harness package (accessor
// methods of one package are used by harnesses of another).
func allOverlayFiles() (map[string][]byte, error) {
	overlay := map[string][]byte{}
	for _, rel := range allHarnessPkgs() {
		files, _, err := harnessFiles(rel)
		if err != nil {
			return nil, err
		}
		for k, v := range files {
			overlay[k] = v
		}
	}
	return overlay, nil
}

func loadEngine(pkgs []string) (*gosym.Engine, error) {
	overlay, err := allOverlayFiles()
	if err != nil {
		return nil, err
	}
	var patterns []string
	for _, rel := range pkgs {
		patterns = append(patterns, "./"+rel)
	}
	e := gosym.NewEngine(modulePath)
	e.Progress = os.Getenv("VERIF_PROGRESS") != ""
	e.SyncGo = []string{"(*" + modulePath + "/coreV2/appdb.AppDB).Snapshot", "(*" + modulePath + "/coreV2/minter.Blockchain).Commit"}
	if w := os.Getenv("VERIF_WORKERS"); w != "" {
		if n, err := strconv.Atoi(w); err == nil {
			e.Workers = n
		}
	}
	t0 := time.Now()
	if err := e.Load(repoDir, overlay, goEnv, patterns...); err != nil {
		return nil, err
	}
	fmt.Printf("loaded %v from %s in %.1fs\n", pkgs, repoDir, time.Since(t0).Seconds())
	return e, nil
}

// ------------------------------------------------------------------ native

type nativeRunner struct {
	dir      string
	bins     map[string]string
	overlays map[string]string
}

func newNativeRunner() *nativeRunner {
	dir, err := os.MkdirTemp("/var/tmp", "verif-")
	if err != nil {
		panic(err)
	}
	return &nativeRunner{dir: dir, bins: map[string]string{}, overlays: map[string]string{}}
}

// runRace confirms a predicted map race: the harness package is built with the
// Go race detector, the harness runs its two threads in two goroutines
// (VERIF_RACE), and the detector's reports are searched for one whose stacks go
// through a runtime map operation and both predicted functions.
func (n *nativeRunner) runRace(rel, harness, replayPath, fnA string, fnBs []string) (bool, string, error) {
	if _, err := n.build(rel); err != nil {
		return false, "", err
	}
	key := rel + "|race"
	bin, ok := n.bins[key]
	if !ok {
		bin = filepath.Join(filepath.Dir(n.overlays[rel]), "replay.race.test")
		cmd := exec.Command("go", "test", "-race", "-c", "-vet=off", "-o", bin, "-overlay", n.overlays[rel], "./"+rel)
		cmd.Dir = repoDir
		cmd.Env = append(append(os.Environ(), goEnv...), "CGO_ENABLED=1")
		if out, err := cmd.CombinedOutput(); err != nil {
			return false, "", fmt.Errorf("race-detector build of %s failed: %v\n%s", rel, err, out)
		}
		n.bins[key] = bin
	}
	detail := ""
	for attempt := 0; attempt < 16; attempt++ {
		cmd := exec.Command(bin, "-test.run", "^TestVerifReplay$", "-test.v", "-test.timeout", "300s")
		cmd.Dir = filepath.Join(repoDir, rel)
		// the block step arrives at a different phase of the repeated query in every attempt
		cmd.Env = append(os.Environ(), "VERIF_REPLAY="+replayPath, "VERIF_HARNESS="+harness, "VERIF_RACE=1",
			fmt.Sprintf("VERIF_RACE_DELAY_MS=%d", 150+attempt*37), "GORACE=halt_on_error=0 history_size=5")
		out, _ := cmd.CombinedOutput()
		text := string(out)
		if strings.Contains(text, "concurrent map") && strings.Contains(text, "fatal error") {
			return true, "the Go runtime aborted with a concurrent map access fatal error", nil
		}
		for _, block := range strings.Split(text, "==================") {
			if !strings.Contains(block, "DATA RACE") || !strings.Contains(block, "runtime.map") {
				continue
			}
			if strings.Contains(block, fnA+"(") || strings.Contains(block, fnA+".func") {
				for _, fnB := range fnBs {
					if strings.Contains(block, fnB+"(") || strings.Contains(block, fnB+".func") {
						return true, "race detector report through " + fnA + " and " + fnB, nil
					}
				}
			}
		}
		detail = fmt.Sprintf("%d race reports, none through %s and one of %v", strings.Count(text, "DATA RACE"), fnA, fnBs)
		if p := os.Getenv("VERIF_RACE_LOG"); p != "" {
			os.WriteFile(p, out, 0o644)
		}
	}
	return false, detail, nil
}

func (n *nativeRunner) cleanup() { os.RemoveAll(n.dir) }

func (n *nativeRunner) build(rel string) (string, error) {
	if b, ok := n.bins[rel]; ok {
		return b, nil
	}
	nativeMode = true
	defer func() { nativeMode = false }()
	_, funcs, err := harnessFiles(rel)
	if err != nil {
		return "", err
	}
	files, err := allOverlayFiles()
	if err != nil {
		return "", err
	}
	if err := applyNativeRewrites(files); err != nil {
		return "", err
	}
	name, _ := pkgName(rel)
	var sb strings.Builder
	fmt.Fprintf(&sb, "package %s\n\nimport (\n\t\"os\"\n\t\"testing\"\n)\n\nfunc TestVerifReplay(t *testing.T) {\n\tswitch os.Getenv(\"VERIF_HARNESS\") {\n", name)
	for _, f := range funcs {
		fmt.Fprintf(&sb, "\tcase %q:\n\t\tverifRunNative(%s)\n", f, f)
	}
	sb.WriteString("\tdefault:\n\t\tt.Fatal(\"unknown harness\")\n\t}\n}\n")
	files[filepath.Join(repoDir, rel, "zz_verif_replay_test.go")] = []byte(sb.String())
	repl := map[string]string{}
	sub := filepath.Join(n.dir, strings.ReplaceAll(rel, "/", "_"))
	os.MkdirAll(sub, 0o755)
	for virt, content := range files {
		real := filepath.Join(sub, strings.ReplaceAll(strings.TrimPrefix(virt, repoDir+"/"), "/", "__"))
		if err := os.WriteFile(real, content, 0o644); err != nil {
			return "", err
		}
		repl[virt] = real
	}
	ov, _ := json.Marshal(map[string]interface{}{"Replace": repl})
	ovPath := filepath.Join(sub, "overlay.json")
	os.WriteFile(ovPath, ov, 0o644)
	bin := filepath.Join(sub, "replay.test")
	n.overlays[rel] = ovPath
	cmd := exec.Command("go", "test", "-c", "-vet=off", "-o", bin, "-overlay", ovPath, "./"+rel)
	cmd.Dir = repoDir
	cmd.Env = append(os.Environ(), goEnv...)
	out, err := cmd.CombinedOutput()
	if err != nil {
		return "", fmt.Errorf("native build of %s failed: %v\n%s", rel, err, out)
	}
	n.bins[rel] = bin
	return bin, nil
}

type nativeVerdict struct {
	Outcome string
	Detail  string
	Failed  []string
	Notes   map[string]string
	Raw     string
}

func (n *nativeRunner) run(rel, harness, replayPath string) (*nativeVerdict, error) {
	bin, err := n.build(rel)
	if err != nil {
		return nil, err
	}
	cmd := exec.Command(bin, "-test.run", "^TestVerifReplay$", "-test.v", "-test.timeout", "120s")
	cmd.Dir = filepath.Join(repoDir, rel)
	cmd.Env = append(os.Environ(), "VERIF_REPLAY="+replayPath, "VERIF_HARNESS="+harness)
	out, _ := cmd.CombinedOutput()
	v := &nativeVerdict{Notes: map[string]string{}, Raw: string(out)}
	for _, l := range strings.Split(string(out), "\n") {
		switch {
		case strings.HasPrefix(l, "VERIF-OUTCOME "):
			parts := strings.SplitN(strings.TrimPrefix(l, "VERIF-OUTCOME "), " ", 2)
			v.Outcome = parts[0]
			if len(parts) > 1 {
				v.Detail = parts[1]
			}
		case strings.HasPrefix(l, "VERIF-FAILED "):
			v.Failed = append(v.Failed, strings.TrimPrefix(l, "VERIF-FAILED "))
		case strings.HasPrefix(l, "VERIF-NOTE "):
			kv := strings.SplitN(strings.TrimPrefix(l, "VERIF-NOTE "), "=", 2)
			if len(kv) == 2 {
				v.Notes[kv[0]] = kv[1]
			}
		}
	}
	if v.Outcome == "" {
		// the test process died (os.Exit, log.Fatal, runtime fatal error)
		v.Outcome = "panicked"
		v.Detail = "process exited without verdict"
	}
	return v, nil
}

// ------------------------------------------------------------------ replay files

type replayFile struct {
	Property string            `json:"property"`
	Harness  string            `json:"harness"`
	Package  string            `json:"package"`
	Config   map[string]int64  `json:"config"`
	Vars     map[string]string `json:"vars"`
	Kind     string            `json:"kind"`
	Label    string            `json:"label"`
	Pos      string            `json:"pos,omitempty"`
	Msg      string            `json:"msg,omitempty"`
	Trace    string            `json:"trace,omitempty"`
}

func writeReplay(dir string, rf *replayFile) (string, error) {
	os.MkdirAll(dir, 0o755)
	b, _ := json.MarshalIndent(rf, "", " ")
	h := sha256.Sum256(b)
	lab := sanitize(rf.Label)
	if len(lab) > 160 { // file names are limited to 255 bytes; the label is in the file and the digest keeps names apart
		lab = lab[:160]
	}
	p := filepath.Join(dir, fmt.Sprintf("%s-%s-%s.json", rf.Harness, lab, hex.EncodeToString(h[:4])))
	return p, os.WriteFile(p, b, 0o644)
}

func sanitize(s string) string {
	var sb strings.Builder
	for _, r := range s {
		if r >= 'a' && r <= 'z' || r >= 'A' && r <= 'Z' || r >= '0' && r <= '9' || r == '-' || r == '_' {
			sb.WriteRune(r)
		} else {
			sb.WriteByte('_')
		}
	}
	return sb.String()
}

func cmdReplay(args []string) int {
	if len(args) < 1 {
		usage()
	}
	b, err := os.ReadFile(args[0])
	if err != nil {
		fmt.Fprintln(os.Stderr, err)
		return 2
	}
	var rf replayFile
	if err := json.Unmarshal(b, &rf); err != nil {
		fmt.Fprintln(os.Stderr, err)
		return 2
	}
	nr := newNativeRunner()
	defer nr.cleanup()
	if strings.HasPrefix(rf.Label, "C25:no-map-race ") {
		sides := strings.SplitN(strings.TrimPrefix(rf.Label, "C25:no-map-race "), " ~ ", 2)
		fnOf := func(s string) string {
			if f := strings.Fields(s); len(f) >= 2 {
				return f[1]
			}
			return s
		}
		if len(sides) != 2 {
			fmt.Fprintln(os.Stderr, "malformed race label")
			return 2
		}
		ok, detail, err := nr.runRace(rf.Package, rf.Harness, args[0], fnOf(sides[0]), raceFns(sides[1]))
		if err != nil {
			fmt.Fprintln(os.Stderr, err)
			return 2
		}
		if ok {
			fmt.Printf("REPRODUCED property=%s harness=%s label=%s (%s)\n", rf.Property, rf.Harness, rf.Label, detail)
			return 1
		}
		fmt.Println("not reproduced:", detail)
		return 0
	}
	v, err := nr.run(rf.Package, rf.Harness, args[0])
	if err != nil {
		fmt.Fprintln(os.Stderr, err)
		return 2
	}
	fmt.Printf("native outcome: %s %s\nfailed assertions: %v\nnotes: %v\n", v.Outcome, v.Detail, v.Failed, v.Notes)
	if reproduces(&rf, v) {
		fmt.Printf("REPRODUCED property=%s harness=%s label=%s\n", rf.Property, rf.Harness, rf.Label)
		return 1
	}
	fmt.Println("not reproduced")
	return 0
}

func reproduces(rf *replayFile, v *nativeVerdict) bool {
	if rf.Kind == "panic" {
		return v.Outcome == "panicked"
	}
	for _, l := range v.Failed {
		if l == rf.Label {
			return true
		}
	}
	return false
}

// ------------------------------------------------------------------ dev: single harness

func cmdHarness(args []string) int {
	if len(args) < 2 {
		usage()
	}
	rel, fn := args[0], args[1]
	cfg := map[string]int64{}
	verbose := false
	opts := &gosym.HarnessOpts{Config: cfg}
	for _, a := range args[2:] {
		if a == "-v" {
			verbose = true
			continue
		}
		if a == "-maporders" {
			opts.MapOrders = true
			continue
		}
		if a == "-fp" {
			opts.FloatMode = "fp"
			continue
		}
		if a == "-roundint" {
			opts.FloatMode = "real-roundint"
			continue
		}
		if strings.HasPrefix(a, "-real:") {
			opts.RealBodies = append(opts.RealBodies, strings.TrimPrefix(a, "-real:"))
			continue
		}
		kv := strings.SplitN(a, "=", 2)
		if len(kv) == 2 {
			n, _ := strconv.ParseInt(kv[1], 10, 64)
			switch kv[0] {
			case "maxpaths":
				opts.MaxPaths = int(n)
			case "feasms":
				opts.FeasMs = int(n)
			case "assertms":
				opts.AssertMs = int(n)
			default:
				cfg[kv[0]] = n
			}
		}
	}
	e, err := loadEngine([]string{rel})
	if err != nil {
		fmt.Fprintln(os.Stderr, err)
		return 2
	}
	e.Verbose = verbose
	e.TraceSMT = os.Getenv("VERIF_TRACE_SMT") != ""
	res, err := e.RunHarness(modulePath+"/"+rel, fn, opts)
	if err != nil {
		fmt.Fprintln(os.Stderr, err)
		return 2
	}
	if p := os.Getenv("VERIF_JSON_OUT"); p != "" {
		b, _ := json.MarshalIndent(res, "", " ")
		os.WriteFile(p, b, 0o644)
		printResult(res, false)
		return 0
	}
	printResult(res, true)
	return 0
}

func printResult(res *gosym.HarnessResult, full bool) {
	fmt.Printf("%s: paths=%d outcomes=%v obligations=%d discharged=%d violations=%d inconclusive=%d overapprox=%d queries=%d wall=%.1fs solver=%v\n",
		res.Func, len(res.Paths), res.Outcomes, res.Obligations, res.Discharged, len(res.Violations), len(res.Inconclusive), res.OverApprox, res.Queries, res.WallS, fmtTimes(res.SolverTime))
	if !full {
		return
	}
	for _, p := range res.Paths {
		fmt.Printf("  path %-30s %-14s steps=%d pc=%d %s\n", p.Trace, p.Outcome, p.Steps, p.PCSize, short(p.Detail, 400))
		for _, a := range p.Asserts {
			if a.Status != "discharged" && a.Status != "concrete-ok" {
				fmt.Printf("      assert %-28s %s %v\n", a.Label, a.Status, a.Model)
			}
		}
	}
	for _, v := range res.Violations {
		fmt.Printf("  VIOLATION kind=%s label=%s pos=%s msg=%s model=%v\n", v.Kind, v.Label, v.Pos, short(v.Msg, 200), v.Model)
	}
	for _, s := range res.Inconclusive {
		fmt.Printf("  INCONCLUSIVE %s\n", short(s, 600))
	}
}

func fmtTimes(m map[string]float64) string {
	var ks []string
	for k := range m {
		ks = append(ks, k)
	}
	sort.Strings(ks)
	var parts []string
	for _, k := range ks {
		parts = append(parts, fmt.Sprintf("%s:%.1fs", k, m[k]))
	}
	return strings.Join(parts, " ")
}

func short(s string, n int) string {
	if len(s) > n {
		return s[:n] + "…"
	}
	return s
}

// raceFns extracts the function names from the block-thread side of a
// "C25:no-map-race" label: "write f [locks] | read g [locks]".
func raceFns(side string) []string {
	var out []string
	for _, item := range strings.Split(side, " | ") {
		if f := strings.Fields(item); len(f) >= 2 {
			out = append(out, f[1])
		}
	}
	return out
}
