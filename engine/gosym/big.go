package gosym

// math/big modelled by intrinsics: *big.Int is a pointer to a cell holding an
// SMT Int term; *big.Rat a pair of terms.  Semantics are fixed in DESIGN.md
// appendix B.

import (
	"fmt"
	"go/types"
	"math/big"
)

type bigRat struct{ N, D *Term } // D > 0

// bigBytes is the one pseudo-element of the []byte produced by Bytes() on a
// symbolic big.Int: "the big-endian magnitude of T" (T >= 0, T != 0).
type bigBytes struct{ T *Term }

func zeroSpecial(t *types.Named) (value, bool) {
	obj := t.Obj()
	if obj.Pkg() == nil {
		return nil, false
	}
	switch obj.Pkg().Path() {
	case "math/big":
		switch obj.Name() {
		case "Int":
			return bigInt{IntConst64(0)}, true
		case "Rat":
			return bigRat{IntConst64(0), IntConst64(1)}, true
		case "Float":
			return newBigFloatZero(), true
		}
	}
	return nil, false
}

func bigCell(t *Term) value {
	var cell value = bigInt{t}
	return &cell
}

func bigOf(v value) *Term {
	p, ok := v.(*value)
	if !ok {
		panic(abortPath{"engine-error", fmt.Sprintf("bigOf: %T", v)})
	}
	if p == nil {
		panic(runtimePanic("invalid memory address or nil pointer dereference (nil *big.Int)"))
	}
	b, ok := (*p).(bigInt)
	if !ok {
		panic(abortPath{"engine-error", fmt.Sprintf("bigOf: pointee %T", *p)})
	}
	return b.T
}

func setBig(v value, t *Term) value {
	p := v.(*value)
	if p == nil {
		panic(runtimePanic("invalid memory address or nil pointer dereference (nil *big.Int receiver)"))
	}
	*p = bigInt{t}
	return v
}

func cmpTerm(a, b *Term) *Term {
	return Ite(Lt(a, b), IntConst64(-1), Ite(Eq(a, b), IntConst64(0), IntConst64(1)))
}

// divEuclid returns (q, m) with x = q*y + m, 0 <= m < |y|.
func divEuclid(fr *frame, x, y *Term) (*Term, *Term) {
	if fr.i.decide(Eq(y, IntConst64(0))) {
		panic(targetPanic{v: iface{t: types.Typ[types.String], v: "division by zero"}, runtime: true})
	}
	if y.IsConst() {
		return EDiv(x, y), EMod(x, y)
	}
	c := fr.i.ctx
	q, m := c.Fresh("q", IntSort), c.Fresh("m", IntSort)
	c.Constrain(Eq(x, Add(Mul(q, y), m)))
	c.Constrain(Ge(m, IntConst64(0)))
	c.Constrain(Lt(m, Abs(y)))
	return q, m
}

// divTrunc returns (q, r) with x = q*y + r, |r| < |y|, sign(r) in {0, sign(x)}.
func divTrunc(fr *frame, x, y *Term) (*Term, *Term) {
	if fr.i.decide(Eq(y, IntConst64(0))) {
		panic(targetPanic{v: iface{t: types.Typ[types.String], v: "division by zero"}, runtime: true})
	}
	if x.IsConst() && y.IsConst() {
		q, r := new(big.Int).QuoRem(x.Val, y.Val, new(big.Int))
		return IntConst(q), IntConst(r)
	}
	if y.IsConst() {
		ay := IntConst(new(big.Int).Abs(y.Val))
		mag := EDiv(Abs(x), ay)
		q := mag
		if y.Val.Sign() < 0 {
			q = Ite(Ge(x, IntConst64(0)), Neg(mag), mag)
		} else {
			q = Ite(Ge(x, IntConst64(0)), mag, Neg(mag))
		}
		return q, Sub(x, Mul(q, y))
	}
	c := fr.i.ctx
	q, r := c.Fresh("q", IntSort), c.Fresh("r", IntSort)
	zero := IntConst64(0)
	c.Constrain(Eq(x, Add(Mul(q, y), r)))
	c.Constrain(Lt(Abs(r), Abs(y)))
	c.Constrain(Implies(Ge(x, zero), Ge(r, zero)))
	c.Constrain(Implies(Le(x, zero), Le(r, zero)))
	return q, r
}

func concreteBytes(b []byte) []value {
	out := make([]value, len(b))
	for i, x := range b {
		out[i] = x
	}
	return out
}

func bytesOfValue(v value) ([]byte, bool) {
	s, ok := v.([]value)
	if !ok {
		return nil, false
	}
	out := make([]byte, len(s))
	for i, e := range s {
		b, ok := e.(uint8)
		if !ok {
			return nil, false
		}
		out[i] = b
	}
	return out, true
}

func registerBig(e *Engine) {
	e.DenyBodies("math/big")
	R := e.Register
	R("math/big.NewInt", func(fr *frame, a []value) value {
		t, _ := intTerm(a[0])
		return bigCell(t)
	})
	R("(*math/big.Int).Set", func(fr *frame, a []value) value { return setBig(a[0], bigOf(a[1])) })
	R("(*math/big.Int).SetInt64", func(fr *frame, a []value) value { t, _ := intTerm(a[1]); return setBig(a[0], t) })
	R("(*math/big.Int).SetUint64", func(fr *frame, a []value) value { t, _ := intTerm(a[1]); return setBig(a[0], t) })
	R("(*math/big.Int).Add", func(fr *frame, a []value) value { return setBig(a[0], Add(bigOf(a[1]), bigOf(a[2]))) })
	R("(*math/big.Int).Sub", func(fr *frame, a []value) value { return setBig(a[0], Sub(bigOf(a[1]), bigOf(a[2]))) })
	R("(*math/big.Int).Mul", func(fr *frame, a []value) value { return setBig(a[0], Mul(bigOf(a[1]), bigOf(a[2]))) })
	R("(*math/big.Int).Neg", func(fr *frame, a []value) value { return setBig(a[0], Neg(bigOf(a[1]))) })
	R("(*math/big.Int).Abs", func(fr *frame, a []value) value { return setBig(a[0], Abs(bigOf(a[1]))) })
	R("(*math/big.Int).Cmp", func(fr *frame, a []value) value { return mkInt(cmpTerm(bigOf(a[0]), bigOf(a[1])), types.Int) })
	R("(*math/big.Int).CmpAbs", func(fr *frame, a []value) value {
		return mkInt(cmpTerm(Abs(bigOf(a[0])), Abs(bigOf(a[1]))), types.Int)
	})
	R("(*math/big.Int).Sign", func(fr *frame, a []value) value { return mkInt(cmpTerm(bigOf(a[0]), IntConst64(0)), types.Int) })
	R("(*math/big.Int).Div", func(fr *frame, a []value) value {
		q, _ := divEuclid(fr, bigOf(a[1]), bigOf(a[2]))
		return setBig(a[0], q)
	})
	R("(*math/big.Int).Mod", func(fr *frame, a []value) value {
		_, m := divEuclid(fr, bigOf(a[1]), bigOf(a[2]))
		return setBig(a[0], m)
	})
	R("(*math/big.Int).DivMod", func(fr *frame, a []value) value {
		q, m := divEuclid(fr, bigOf(a[1]), bigOf(a[2]))
		setBig(a[3], m)
		setBig(a[0], q)
		return tuple{a[0], a[3]}
	})
	R("(*math/big.Int).Quo", func(fr *frame, a []value) value {
		q, _ := divTrunc(fr, bigOf(a[1]), bigOf(a[2]))
		return setBig(a[0], q)
	})
	R("(*math/big.Int).Rem", func(fr *frame, a []value) value {
		_, r := divTrunc(fr, bigOf(a[1]), bigOf(a[2]))
		return setBig(a[0], r)
	})
	R("(*math/big.Int).QuoRem", func(fr *frame, a []value) value {
		q, r := divTrunc(fr, bigOf(a[1]), bigOf(a[2]))
		setBig(a[3], r)
		setBig(a[0], q)
		return tuple{a[0], a[3]}
	})
	R("(*math/big.Int).Exp", func(fr *frame, a []value) value {
		x, y := bigOf(a[1]), bigOf(a[2])
		if mp := a[3].(*value); mp != nil {
			m := bigOf(a[3])
			if !(m.IsConst() && m.Val.Sign() == 0) {
				if x.IsConst() && y.IsConst() && m.IsConst() {
					return setBig(a[0], IntConst(new(big.Int).Exp(x.Val, y.Val, m.Val)))
				}
				panic(abortPath{"unsupported", "big.Int.Exp with symbolic operands and modulus"})
			}
		}
		if !y.IsConst() {
			panic(abortPath{"unsupported", "big.Int.Exp with symbolic exponent"})
		}
		if y.Val.Sign() <= 0 {
			return setBig(a[0], IntConst64(1))
		}
		if x.IsConst() {
			return setBig(a[0], IntConst(new(big.Int).Exp(x.Val, y.Val, nil)))
		}
		if y.Val.Cmp(big.NewInt(8)) > 0 {
			panic(abortPath{"unsupported", "big.Int.Exp with symbolic base and exponent > 8"})
		}
		r := x
		for k := int64(1); k < y.Val.Int64(); k++ {
			r = Mul(r, x)
		}
		return setBig(a[0], r)
	})
	R("(*math/big.Int).Sqrt", func(fr *frame, a []value) value {
		x := bigOf(a[1])
		if fr.i.decide(Lt(x, IntConst64(0))) {
			panic(targetPanic{v: iface{t: types.Typ[types.String], v: "square root of negative number"}})
		}
		if x.IsConst() {
			return setBig(a[0], IntConst(new(big.Int).Sqrt(x.Val)))
		}
		c := fr.i.ctx
		r := c.Fresh("sqrt", IntSort)
		c.Constrain(Ge(r, IntConst64(0)))
		c.Constrain(Le(Mul(r, r), x))
		r1 := Add(r, IntConst64(1))
		c.Constrain(Lt(x, Mul(r1, r1)))
		return setBig(a[0], r)
	})
	R("(*math/big.Int).Int64", func(fr *frame, a []value) value { return mkInt(wrapMod(bigOf(a[0]), types.Int64), types.Int64) })
	R("(*math/big.Int).Uint64", func(fr *frame, a []value) value {
		return mkInt(wrapMod(bigOf(a[0]), types.Uint64), types.Uint64)
	})
	R("(*math/big.Int).IsInt64", func(fr *frame, a []value) value {
		lo, hi := kindRange(types.Int64)
		x := bigOf(a[0])
		return mkBool(And(Ge(x, IntConst(lo)), Le(x, IntConst(hi))))
	})
	R("(*math/big.Int).IsUint64", func(fr *frame, a []value) value {
		lo, hi := kindRange(types.Uint64)
		x := bigOf(a[0])
		return mkBool(And(Ge(x, IntConst(lo)), Le(x, IntConst(hi))))
	})
	R("(*math/big.Int).BitLen", func(fr *frame, a []value) value {
		x := bigOf(a[0])
		if x.IsConst() {
			return x.Val.BitLen()
		}
		// fork-free: n is the unique integer with 2^(n-1) <= |x| < 2^n (0 for x=0),
		// encoded over a power-of-two table up to 512 bits.
		c := fr.i.ctx
		n := c.Fresh("bitlen", IntSort)
		ax := Abs(x)
		cases := []*Term{Implies(Eq(ax, IntConst64(0)), Eq(n, IntConst64(0)))}
		for k := 1; k <= 512; k++ {
			cases = append(cases, Implies(And(Ge(ax, IntConst(pow2(k-1))), Lt(ax, IntConst(pow2(k)))), Eq(n, IntConst64(int64(k)))))
		}
		c.Constrain(And(cases...))
		c.Constrain(And(Ge(n, IntConst64(0)), Le(n, IntConst64(512))))
		if fr.i.decide(Ge(ax, IntConst(pow2(512)))) {
			panic(abortPath{"unsupported", "BitLen of a value >= 2^512"})
		}
		return symInt{n, types.Int}
	})
	R("(*math/big.Int).Bytes", func(fr *frame, a []value) value {
		x := bigOf(a[0])
		if x.IsConst() {
			return concreteBytes(x.Val.Bytes())
		}
		if fr.i.decide(Eq(x, IntConst64(0))) {
			return []value{}
		}
		return []value{bigBytes{Abs(x)}}
	})
	R("(*math/big.Int).SetBytes", func(fr *frame, a []value) value {
		s := a[1].([]value)
		if len(s) == 1 {
			if bb, ok := s[0].(bigBytes); ok {
				return setBig(a[0], bb.T)
			}
		}
		b, ok := bytesOfValue(a[1])
		if !ok {
			panic(abortPath{"unsupported", "SetBytes of symbolic bytes"})
		}
		return setBig(a[0], IntConst(new(big.Int).SetBytes(b)))
	})
	R("(*math/big.Int).String", func(fr *frame, a []value) value {
		if p := a[0].(*value); p == nil {
			return "<nil>"
		}
		x := bigOf(a[0])
		if x.IsConst() {
			return x.Val.String()
		}
		return numStr{x}
	})
	R("(*math/big.Int).Text", func(fr *frame, a []value) value {
		x := bigOf(a[0])
		if x.IsConst() {
			return x.Val.Text(int(asInt64(a[1])))
		}
		if asInt64(a[1]) == 10 {
			return numStr{x}
		}
		return opaqueStr
	})
	R("(*math/big.Int).SetString", func(fr *frame, a []value) value {
		switch s := a[1].(type) {
		case numStr:
			setBig(a[0], s.T)
			return tuple{a[0], true}
		case string:
			v, ok := new(big.Int).SetString(s, int(asInt64(a[2])))
			if !ok {
				return tuple{(*value)(nil), false}
			}
			setBig(a[0], IntConst(v))
			return tuple{a[0], true}
		}
		panic(abortPath{"unsupported", fmt.Sprintf("SetString of %T", a[1])})
	})
	R("(*math/big.Int).Format", func(fr *frame, a []value) value { return nil })
	R("(*math/big.Int).MarshalJSON", func(fr *frame, a []value) value { return tuple{[]value{}, iface{}} })
	R("(*math/big.Int).MarshalText", func(fr *frame, a []value) value { return tuple{[]value{}, iface{}} })
	R("(*math/big.Int).Lsh", func(fr *frame, a []value) value {
		n := asInt64(a[2])
		return setBig(a[0], Mul(bigOf(a[1]), IntConst(pow2(int(n)))))
	})
	R("(*math/big.Int).Rsh", func(fr *frame, a []value) value {
		n := asInt64(a[2])
		return setBig(a[0], EDiv(bigOf(a[1]), IntConst(pow2(int(n)))))
	})
	R("(*math/big.Int).Bit", func(fr *frame, a []value) value {
		x := bigOf(a[0])
		n := asInt64(a[1])
		if x.IsConst() {
			return uint(x.Val.Bit(int(n)))
		}
		return mkInt(EMod(EDiv(Abs(x), IntConst(pow2(int(n)))), IntConst64(2)), types.Uint)
	})
	R("(*math/big.Int).IsProbablyPrime", func(fr *frame, a []value) value {
		panic(abortPath{"unsupported", "ProbablyPrime"})
	})

	// ---- big.Rat (exact)
	ratOf := func(v value) bigRat {
		p := v.(*value)
		if p == nil {
			panic(runtimePanic("nil *big.Rat"))
		}
		return (*p).(bigRat)
	}
	setRat := func(v value, n, d *Term) value {
		p := v.(*value)
		if p == nil {
			panic(runtimePanic("nil *big.Rat"))
		}
		*p = bigRat{n, d}
		return v
	}
	R("math/big.NewRat", func(fr *frame, a []value) value {
		n, _ := intTerm(a[0])
		d, _ := intTerm(a[1])
		if fr.i.decide(Eq(d, IntConst64(0))) {
			panic(targetPanic{v: iface{t: types.Typ[types.String], v: "division by zero"}})
		}
		var cell value = bigRat{Ite(Lt(d, IntConst64(0)), Neg(n), n), Abs(d)}
		return &cell
	})
	R("(*math/big.Rat).SetFrac", func(fr *frame, a []value) value {
		n, d := bigOf(a[1]), bigOf(a[2])
		if fr.i.decide(Eq(d, IntConst64(0))) {
			panic(targetPanic{v: iface{t: types.Typ[types.String], v: "division by zero"}})
		}
		return setRat(a[0], Ite(Lt(d, IntConst64(0)), Neg(n), n), Abs(d))
	})
	R("(*math/big.Rat).SetInt", func(fr *frame, a []value) value { return setRat(a[0], bigOf(a[1]), IntConst64(1)) })
	R("(*math/big.Rat).SetInt64", func(fr *frame, a []value) value {
		t, _ := intTerm(a[1])
		return setRat(a[0], t, IntConst64(1))
	})
	R("(*math/big.Rat).SetFloat64", func(fr *frame, a []value) value {
		x, ok := a[1].(float64)
		if !ok {
			panic(abortPath{"unsupported", "big.Rat.SetFloat64 of a symbolic float"})
		}
		r := new(big.Rat).SetFloat64(x)
		if r == nil {
			return (*value)(nil)
		}
		return setRat(a[0], IntConst(r.Num()), IntConst(r.Denom()))
	})
	R("(*math/big.Rat).Set", func(fr *frame, a []value) value { r := ratOf(a[1]); return setRat(a[0], r.N, r.D) })
	R("(*math/big.Rat).Add", func(fr *frame, a []value) value {
		x, y := ratOf(a[1]), ratOf(a[2])
		return setRat(a[0], Add(Mul(x.N, y.D), Mul(y.N, x.D)), Mul(x.D, y.D))
	})
	R("(*math/big.Rat).Sub", func(fr *frame, a []value) value {
		x, y := ratOf(a[1]), ratOf(a[2])
		return setRat(a[0], Sub(Mul(x.N, y.D), Mul(y.N, x.D)), Mul(x.D, y.D))
	})
	R("(*math/big.Rat).Mul", func(fr *frame, a []value) value {
		x, y := ratOf(a[1]), ratOf(a[2])
		return setRat(a[0], Mul(x.N, y.N), Mul(x.D, y.D))
	})
	R("(*math/big.Rat).Quo", func(fr *frame, a []value) value {
		x, y := ratOf(a[1]), ratOf(a[2])
		if fr.i.decide(Eq(y.N, IntConst64(0))) {
			panic(targetPanic{v: iface{t: types.Typ[types.String], v: "division by zero"}})
		}
		n, d := Mul(x.N, y.D), Mul(x.D, y.N)
		return setRat(a[0], Ite(Lt(d, IntConst64(0)), Neg(n), n), Abs(d))
	})
	R("(*math/big.Rat).Cmp", func(fr *frame, a []value) value {
		x, y := ratOf(a[0]), ratOf(a[1])
		return mkInt(cmpTerm(Mul(x.N, y.D), Mul(y.N, x.D)), types.Int)
	})
	R("(*math/big.Rat).Sign", func(fr *frame, a []value) value {
		return mkInt(cmpTerm(ratOf(a[0]).N, IntConst64(0)), types.Int)
	})
	// Num/Denom return the fraction in lowest terms: n = g*n', d = g*d', g > 0.
	// Coprimality of (n', d') is not asserted: results that are invariant under
	// a common factor (e.g. Div(Num, Denom)) are exact; others are
	// over-approximated.
	reduce := func(fr *frame, r bigRat) (*Term, *Term) {
		if r.N.IsConst() && r.D.IsConst() {
			q := new(big.Rat).SetFrac(r.N.Val, r.D.Val)
			return IntConst(q.Num()), IntConst(q.Denom())
		}
		if isOne(r.D) {
			return r.N, r.D
		}
		key := fmt.Sprintf("ratreduce:%p/%p", r.N, r.D)
		if m, ok := fr.i.heap[key]; ok {
			nd := m.([2]*Term)
			return nd[0], nd[1]
		}
		c := fr.i.ctx
		g, n, d := c.Fresh("gcd", IntSort), c.Fresh("num", IntSort), c.Fresh("den", IntSort)
		fr.i.heap[key] = [2]*Term{n, d}
		c.Constrain(Gt(g, IntConst64(0)))
		c.Constrain(Gt(d, IntConst64(0)))
		c.Constrain(Eq(r.N, Mul(g, n)))
		c.Constrain(Eq(r.D, Mul(g, d)))
		return n, d
	}
	R("(*math/big.Rat).Num", func(fr *frame, a []value) value { n, _ := reduce(fr, ratOf(a[0])); return bigCell(n) })
	R("(*math/big.Rat).Denom", func(fr *frame, a []value) value { _, d := reduce(fr, ratOf(a[0])); return bigCell(d) })
	R("(*math/big.Rat).String", func(fr *frame, a []value) value { return opaqueStr })
	R("(*math/big.Rat).FloatString", func(fr *frame, a []value) value { return opaqueStr })

	registerBigFloat(e)
}
