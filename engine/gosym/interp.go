// Copyright 2013 The Go Authors. All rights reserved.
// Use of this source code is governed by a BSD-style
// license that can be found in the LICENSE file.

// Package gosym is a symbolic executor for Go SSA.  It is a fork of
// golang.org/x/tools/go/ssa/interp (v0.29.0): the concrete interpreter is
// kept, scalars may additionally be SMT terms, branches on symbolic
// conditions fork the path (by re-execution with a decision prefix), and
// everything outside the pure-Go core is reached through intrinsics.
package gosym

import (
	"fmt"
	"go/token"
	"go/types"
	"math/big"
	"runtime"
	"runtime/debug"
	"slices"
	"strings"

	"golang.org/x/tools/go/ssa"
)

type continuation int

const (
	kNext continuation = iota
	kReturn
	kJump
)

// interpreter holds the state of one path execution.
type interpreter struct {
	eng     *Engine
	prog    *ssa.Program
	globals map[*ssa.Global]*value
	inited  map[*ssa.Package]bool
	sizes   types.Sizes
	ctx     *pathCtx
	steps   int64
	depth   int
	heap    map[string]interface{} // per-path scratch for intrinsics (tree models ...)
	curFrame *frame
}

type deferred struct {
	fn    value
	args  []value
	instr *ssa.Defer
	tail  *deferred
}

type frame struct {
	i                *interpreter
	caller           *frame
	fn               *ssa.Function
	block, prevBlock *ssa.BasicBlock
	env              map[ssa.Value]value // dynamic values of SSA variables
	locals           []value
	defers           *deferred
	result           value
	panicking        bool
	panic            interface{}
	phitemps         []value // temporaries for parallel phi assignment
	curInstr         ssa.Instruction
}

func (i *interpreter) decide(t *Term) bool {
	if t.IsConst() {
		return t.B
	}
	return i.ctx.branch(t)
}

// truth converts a (possibly symbolic) boolean value to a Go bool, forking.
func (i *interpreter) truth(v value) bool {
	switch v := v.(type) {
	case bool:
		return v
	case symBool:
		return i.ctx.branch(v.T)
	}
	panic(abortPath{"engine-error", fmt.Sprintf("truth of %T", v)})
}

func (i *interpreter) ensureInit(pkg *ssa.Package) {
	if pkg == nil || i.inited[pkg] {
		return
	}
	i.inited[pkg] = true
	for _, m := range pkg.Members {
		if g, ok := m.(*ssa.Global); ok {
			cell := zero(deref(g.Type()))
			i.globals[g] = &cell
		}
	}
	if i.eng.initAllowed(pkg.Pkg.Path()) {
		if fn := pkg.Func("init"); fn != nil {
			pkg.Build()
			call(i, nil, token.NoPos, fn, nil)
		}
	}
}

func (fr *frame) get(key ssa.Value) value {
	switch key := key.(type) {
	case nil:
		return nil
	case *ssa.Function, *ssa.Builtin:
		return key
	case *ssa.Const:
		return constValue(key)
	case *ssa.Global:
		if r, ok := fr.i.globals[key]; ok {
			return r
		}
		fr.i.ensureInit(key.Pkg)
		if r, ok := fr.i.globals[key]; ok {
			return r
		}
		cell := zero(deref(key.Type()))
		fr.i.globals[key] = &cell
		return &cell
	}
	if r, ok := fr.env[key]; ok {
		return r
	}
	panic(abortPath{"engine-error", fmt.Sprintf("get: no value for %T: %v in %s", key, key.Name(), fr.fn)})
}

func (fr *frame) runDefer(d *deferred) {
	var ok bool
	defer func() {
		if !ok {
			r := recover()
			if a, isAbort := r.(abortPath); isAbort {
				panic(a)
			}
			fr.panicking = true
			fr.panic = r
		}
	}()
	call(fr.i, fr, d.instr.Pos(), d.fn, d.args)
	ok = true
}

func (fr *frame) runDefers() {
	for d := fr.defers; d != nil; d = d.tail {
		fr.runDefer(d)
	}
	fr.defers = nil
	if fr.panicking {
		panic(fr.panic) // new panic, or still panicking
	}
}

func lookupMethod(i *interpreter, typ types.Type, meth *types.Func) *ssa.Function {
	return i.prog.LookupMethod(typ, meth.Pkg(), meth.Name())
}

func derefPtr(x value, what string) *value {
	p, ok := x.(*value)
	if !ok {
		panic(abortPath{"engine-error", fmt.Sprintf("%s: expected pointer, got %T", what, x)})
	}
	if p == nil {
		panic(runtimePanic("invalid memory address or nil pointer dereference"))
	}
	return p
}

// concretize turns a symbolic non-negative integer into a concrete one by
// forking over 0..limit (values beyond the limit are left symbolic-negative or
// too large: the caller's bounds check then raises the run-time panic, or the
// path ends as bound-exceeded).
func (fr *frame) concretize(v value, limit int64, what string) value {
	s, ok := v.(symInt)
	if !ok {
		return v
	}
	for k := int64(0); k <= limit; k++ {
		if fr.i.decide(Eq(s.T, IntConst64(k))) {
			return concreteInt(big.NewInt(k), s.K)
		}
	}
	if fr.i.decide(Lt(s.T, IntConst64(0))) {
		return concreteInt(big.NewInt(-1), types.Int)
	}
	if limit < 256 {
		// larger than the container: any such value fails the bounds check
		return concreteInt(big.NewInt(limit+1), s.K)
	}
	panic(abortPath{"bound-exceeded", what + ": symbolic size above 256"})
}

func (fr *frame) index(idx value, n int) int {
	if s, ok := idx.(symInt); ok {
		// symbolic index into a concrete-length container: fork over the
		// possible positions (bounded by n).
		if fr.i.decide(Or(Lt(s.T, IntConst64(0)), Ge(s.T, IntConst64(int64(n))))) {
			panic(runtimePanic(fmt.Sprintf("index out of range [symbolic] with length %d", n)))
		}
		if n > 64 {
			panic(abortPath{"unsupported", fmt.Sprintf("symbolic index into container of length %d", n)})
		}
		for k := 0; k < n-1; k++ {
			if fr.i.decide(Eq(s.T, IntConst64(int64(k)))) {
				return k
			}
		}
		return n - 1
	}
	k := asInt64(idx)
	if k < 0 || k >= int64(n) {
		panic(runtimePanic(fmt.Sprintf("index out of range [%d] with length %d", k, n)))
	}
	return int(k)
}

func visitInstr(fr *frame, instr ssa.Instruction) continuation {
	switch instr := instr.(type) {
	case *ssa.DebugRef:
		// no-op

	case *ssa.UnOp:
		fr.env[instr] = unop(fr, instr, fr.get(instr.X))

	case *ssa.BinOp:
		fr.env[instr] = binop(fr.i, instr.Op, instr.X.Type(), fr.get(instr.X), fr.get(instr.Y))

	case *ssa.Call:
		fn, args := prepareCall(fr, &instr.Call)
		fr.env[instr] = call(fr.i, fr, instr.Pos(), fn, args)

	case *ssa.ChangeInterface:
		fr.env[instr] = fr.get(instr.X)

	case *ssa.ChangeType:
		fr.env[instr] = fr.get(instr.X) // (can't fail)

	case *ssa.Convert:
		fr.env[instr] = conv(instr.Type(), instr.X.Type(), fr.get(instr.X))

	case *ssa.SliceToArrayPointer:
		fr.env[instr] = sliceToArrayPointer(instr.Type(), instr.X.Type(), fr.get(instr.X))

	case *ssa.MakeInterface:
		fr.env[instr] = iface{t: instr.X.Type(), v: fr.get(instr.X)}

	case *ssa.Extract:
		fr.env[instr] = fr.get(instr.Tuple).(tuple)[instr.Index]

	case *ssa.Slice:
		x := fr.get(instr.X)
		lo, hi, mx := fr.get(instr.Low), fr.get(instr.High), fr.get(instr.Max)
		if isSymScalar(lo) || isSymScalar(hi) || isSymScalar(mx) {
			// symbolic bounds of a concrete-length container: fork over the
			// (few) possible values; out-of-range values end in the run-time panic
			limit := int64(0)
			switch xv := x.(type) {
			case []value:
				limit = int64(cap(xv))
			case string:
				limit = int64(len(xv))
			case *value:
				limit = int64(len((*derefPtr(xv, "slice")).(array)))
			}
			lo = fr.concretize(lo, limit, "slice bound")
			hi = fr.concretize(hi, limit, "slice bound")
			mx = fr.concretize(mx, limit, "slice bound")
		}
		fr.env[instr] = slice(x, lo, hi, mx)

	case *ssa.Return:
		switch len(instr.Results) {
		case 0:
		case 1:
			fr.result = fr.get(instr.Results[0])
		default:
			var res []value
			for _, r := range instr.Results {
				res = append(res, fr.get(r))
			}
			fr.result = tuple(res)
		}
		fr.block = nil
		return kReturn

	case *ssa.RunDefers:
		fr.runDefers()

	case *ssa.Panic:
		panic(targetPanic{v: fr.get(instr.X), pos: fr.i.prog.Fset.Position(instr.Pos()).String()})

	case *ssa.Send:
		panic(abortPath{"unsupported", "channel send"})

	case *ssa.Store:
		store(deref(instr.Addr.Type()), derefPtr(fr.get(instr.Addr), "store"), fr.get(instr.Val))

	case *ssa.If:
		succ := 1
		if fr.i.truth(fr.get(instr.Cond)) {
			succ = 0
		}
		fr.prevBlock, fr.block = fr.block, fr.block.Succs[succ]
		return kJump

	case *ssa.Jump:
		fr.prevBlock, fr.block = fr.block, fr.block.Succs[0]
		return kJump

	case *ssa.Defer:
		fn, args := prepareCall(fr, &instr.Call)
		defers := &fr.defers
		if into := fr.get(instr.DeferStack); into != nil {
			defers = into.(**deferred)
		}
		*defers = &deferred{
			fn:    fn,
			args:  args,
			instr: instr,
			tail:  *defers,
		}

	case *ssa.Go:
		if fr.i.eng.SkipGo {
			fr.i.ctx.stubs["go statement (skipped)"]++
			break
		}
		if fr.i.eng.syncGo(fr.fn.String()) {
			// one schedule: the goroutine runs to completion at the spawn point
			// (sound only for goroutines that never block; their channels and
			// writers are modelled by intrinsics that do not block)
			fr.i.ctx.stubs["go statement in "+fr.fn.String()+" (run to completion at the spawn point)"]++
			fn, args := prepareCall(fr, &instr.Call)
			call(fr.i, fr, instr.Pos(), fn, args)
			break
		}
		panic(abortPath{"unsupported", "go statement in " + fr.fn.String()})

	case *ssa.MakeChan:
		fr.env[instr] = make(chan value, asInt64(fr.get(instr.Size)))

	case *ssa.Alloc:
		var addr *value
		if instr.Heap {
			addr = new(value)
			fr.env[instr] = addr
		} else {
			addr = fr.env[instr].(*value)
		}
		*addr = zero(deref(instr.Type()))

	case *ssa.MakeSlice:
		capv, lenv := fr.get(instr.Cap), fr.get(instr.Len)
		if isSymScalar(capv) || isSymScalar(lenv) {
			// bounded concretisation: sizes 0..256 are enumerated
			lenv = fr.concretize(lenv, 256, "make length")
			if _, still := capv.(symInt); still {
				capv = lenv
			}
		}
		n := asInt64(capv)
		if n < 0 || n > 1<<24 {
			panic(runtimePanic("makeslice: cap out of range"))
		}
		slice := make([]value, n)
		tElt := instr.Type().Underlying().(*types.Slice).Elem()
		for i := range slice {
			slice[i] = zero(tElt)
		}
		fr.env[instr] = slice[:asInt64(lenv)]

	case *ssa.MakeMap:
		fr.env[instr] = makeMap(instr.Type().Underlying().(*types.Map).Key(), 0)

	case *ssa.Range:
		fr.env[instr] = rangeIter(fr, instr, fr.get(instr.X), instr.X.Type())

	case *ssa.Next:
		fr.env[instr] = fr.get(instr.Iter).(iter).next()

	case *ssa.FieldAddr:
		p := derefPtr(fr.get(instr.X), "fieldaddr")
		s, ok := (*p).(structure)
		if !ok {
			panic(abortPath{"unsupported", fmt.Sprintf("field access into %T (intrinsic-modelled type %s) in %s", *p, deref(instr.X.Type()), fr.fn)})
		}
		fr.env[instr] = &s[instr.Field]

	case *ssa.Field:
		s, ok := fr.get(instr.X).(structure)
		if !ok {
			panic(abortPath{"unsupported", fmt.Sprintf("field access into %T in %s", fr.get(instr.X), fr.fn)})
		}
		fr.env[instr] = s[instr.Field]

	case *ssa.IndexAddr:
		x := fr.get(instr.X)
		idx := fr.get(instr.Index)
		switch x := x.(type) {
		case []value:
			fr.env[instr] = &x[fr.index(idx, len(x))]
		case *value: // *array
			a := (*derefPtr(x, "indexaddr")).(array)
			fr.env[instr] = &a[fr.index(idx, len(a))]
		default:
			panic(abortPath{"engine-error", fmt.Sprintf("unexpected x type in IndexAddr: %T", x)})
		}

	case *ssa.Index:
		x := fr.get(instr.X)
		idx := fr.get(instr.Index)
		switch x := x.(type) {
		case array:
			fr.env[instr] = x[fr.index(idx, len(x))]
		case string:
			fr.env[instr] = x[fr.index(idx, len(x))]
		default:
			panic(abortPath{"unsupported", fmt.Sprintf("unexpected x type in Index: %T", x)})
		}

	case *ssa.Lookup:
		fr.env[instr] = lookup(fr, instr, fr.get(instr.X), fr.get(instr.Index))

	case *ssa.MapUpdate:
		m := fr.get(instr.Map)
		key := fr.get(instr.Key)
		v := fr.get(instr.Value)
		m.(*omap).insert(fr.i, key, v)

	case *ssa.TypeAssert:
		fr.env[instr] = typeAssert(fr.i, instr, fr.get(instr.X).(iface))

	case *ssa.MakeClosure:
		var bindings []value
		for _, binding := range instr.Bindings {
			bindings = append(bindings, fr.get(binding))
		}
		fr.env[instr] = &closure{instr.Fn.(*ssa.Function), bindings}

	case *ssa.Phi:
		panic(abortPath{"engine-error", "phi reached"})

	case *ssa.Select:
		// Only the degenerate non-blocking select over nil channels
		// (context.Background().Done()) is modelled: it takes default.
		if instr.Blocking {
			panic(abortPath{"unsupported", "blocking select"})
		}
		for _, st := range instr.States {
			ch, _ := fr.get(st.Chan).(chan value)
			if ch != nil {
				panic(abortPath{"unsupported", "select on a live channel"})
			}
		}
		r := tuple{-1, false}
		for _, st := range instr.States {
			if st.Dir == types.RecvOnly {
				r = append(r, zero(st.Chan.Type().Underlying().(*types.Chan).Elem()))
			}
		}
		fr.env[instr] = r

	default:
		panic(abortPath{"engine-error", fmt.Sprintf("unexpected instruction: %T", instr)})
	}
	return kNext
}

func prepareCall(fr *frame, call *ssa.CallCommon) (fn value, args []value) {
	v := fr.get(call.Value)
	if call.Method == nil {
		fn = v
	} else {
		recv := v.(iface)
		if recv.t == nil && call.Value.Type().String() == "reflect.Type" {
			// reflection is opaque (reflect.TypeOf yields nil): methods of the nil
			// Type yield zero values so that package-level type tables initialise
			res := call.Signature().Results()
			return &nativeFunc{name: "reflect.Type(nil)." + call.Method.Name(), f: func(fr *frame, args []value) value {
				switch res.Len() {
				case 0:
					return nil
				case 1:
					return zero(res.At(0).Type())
				}
				t := make(tuple, res.Len())
				for k := range t {
					t[k] = zero(res.At(k).Type())
				}
				return t
			}}, nil
		}
		if recv.t == nil {
			panic(runtimePanic("invalid memory address or nil pointer dereference (method call on nil interface)"))
		}
		if f := lookupMethod(fr.i, recv.t, call.Method); f == nil {
			panic(abortPath{"engine-error", fmt.Sprintf("method set for dynamic type %v does not contain %s", recv.t, call.Method)})
		} else {
			fn = f
		}
		args = append(args, recv.v)
	}
	for _, arg := range call.Args {
		args = append(args, fr.get(arg))
	}
	return
}

func call(i *interpreter, caller *frame, callpos token.Pos, fn value, args []value) value {
	switch fn := fn.(type) {
	case *ssa.Function:
		if fn == nil {
			panic(runtimePanic("call of nil function"))
		}
		return callSSA(i, caller, callpos, fn, args, nil)
	case *closure:
		return callSSA(i, caller, callpos, fn.Fn, args, fn.Env)
	case *ssa.Builtin:
		return callBuiltin(caller, callpos, fn, args)
	case *nativeFunc:
		return fn.f(&frame{i: i, caller: caller}, args)
	}
	panic(abortPath{"engine-error", fmt.Sprintf("cannot call %T", fn)})
}

// nativeFunc is a function value implemented by the engine.
type nativeFunc struct {
	name string
	f    func(fr *frame, args []value) value
}

func callSSA(i *interpreter, caller *frame, callpos token.Pos, fn *ssa.Function, args []value, env []value) value {
	fr := &frame{
		i:      i,
		caller: caller, // for panic/recover
		fn:     fn,
	}
	name := fn.String()
	if fn.Parent() == nil {
		if in := i.eng.lookupIntrinsic(fn, name); in != nil && !i.ctx.realBody(name) {
			i.ctx.stubs[name]++
			return in(fr, args)
		}
		if fn.Synthetic == "package initializer" && caller != nil && caller.fn != nil && caller.fn.Synthetic == "package initializer" {
			// dependency initialisation is lazy (on first touch of a global)
			return nil
		}
	}
	if fn.Blocks == nil {
		if p := fnPackage(fn); p != nil {
			p.Build()
		}
		if fn.Blocks == nil {
			panic(abortPath{"unsupported", "no code for function: " + name})
		}
	}
	if fn.TypeParams().Len() > 0 && len(fn.TypeArgs()) == 0 {
		panic(abortPath{"engine-error", "uninstantiated generic " + name})
	}
	if !i.eng.allowBody(fn) {
		panic(abortPath{"unsupported", "call into unmodelled package: " + name})
	}
	if fn.Pkg != nil && fn.Synthetic != "package initializer" {
		i.ensureInit(fn.Pkg)
	}
	i.depth++
	if i.depth > 2000 {
		panic(abortPath{"bound-exceeded", "call depth"})
	}
	defer func() { i.depth-- }()
	i.ctx.funcsEntered[name]++

	fr.env = make(map[ssa.Value]value)
	fr.block = fn.Blocks[0]
	fr.locals = make([]value, len(fn.Locals))
	for i, l := range fn.Locals {
		fr.locals[i] = zero(deref(l.Type()))
		fr.env[l] = &fr.locals[i]
	}
	for i, p := range fn.Params {
		fr.env[p] = args[i]
	}
	for i, fv := range fn.FreeVars {
		fr.env[fv] = env[i]
	}
	for fr.block != nil {
		runFrame(fr)
	}
	return fr.result
}

func fnPackage(fn *ssa.Function) *ssa.Package {
	if fn.Pkg != nil {
		return fn.Pkg
	}
	if o := fn.Origin(); o != nil && o.Pkg != nil {
		return o.Pkg
	}
	if p := fn.Parent(); p != nil {
		return fnPackage(p)
	}
	return nil
}

func runFrame(fr *frame) {
	defer func() {
		if fr.block == nil {
			return // normal return
		}
		r := recover()
		switch r := r.(type) {
		case abortPath:
			panic(r)
		case targetPanic:
			if fr.curInstr != nil && len(r.stack) < 12 {
				r.stack = append(r.stack, fmt.Sprintf("%s@%s", fr.fn.String(), fr.i.prog.Fset.Position(fr.curInstr.Pos())))
			}
			if r.pos == "" && fr.curInstr != nil {
				r.pos = fr.i.prog.Fset.Position(fr.curInstr.Pos()).String()
			}
			fr.panicking = true
			fr.panic = r
			fr.runDefers()
			fr.block = fr.fn.Recover
			return
		case runtime.Error:
			// A host runtime error inside the engine is an engine defect,
			// not a panic of the target program.
			pos := ""
			if fr.curInstr != nil {
				pos = fr.i.prog.Fset.Position(fr.curInstr.Pos()).String()
			}
			panic(abortPath{"engine-error", fmt.Sprintf("%v in %s at %s (%v)\n%s", r, fr.fn, pos, fr.curInstr, trimStack(debug.Stack()))})
		default:
			panic(abortPath{"engine-error", fmt.Sprintf("unexpected host panic %T: %v", r, r)})
		}
		fr.panicking = true
		fr.panic = r
		fr.runDefers()
		fr.block = fr.fn.Recover
	}()

	for {
		nonPhis := executePhis(fr)
		for _, instr := range nonPhis {
			fr.i.steps++
			if fr.i.steps > fr.i.eng.MaxSteps {
				panic(abortPath{"bound-exceeded", fmt.Sprintf("more than %d instructions on one path", fr.i.eng.MaxSteps)})
			}
			fr.curInstr = instr
			fr.i.curFrame = fr
			if visitInstr(fr, instr) == kReturn {
				return
			}
		}
	}
}

func trimStack(b []byte) string {
	lines := strings.Split(string(b), "\n")
	var out []string
	for _, l := range lines {
		if strings.Contains(l, "gosym.") && !strings.Contains(l, "runFrame") && !strings.Contains(l, "callSSA") && !strings.Contains(l, "gosym.call(") {
			out = append(out, strings.TrimSpace(l))
		}
		if len(out) > 8 {
			break
		}
	}
	return strings.Join(out, " < ")
}

func executePhis(fr *frame) []ssa.Instruction {
	firstNonPhi := -1
	for i, instr := range fr.block.Instrs {
		if _, ok := instr.(*ssa.Phi); !ok {
			firstNonPhi = i
			break
		}
	}
	nonPhis := fr.block.Instrs[firstNonPhi:]
	if firstNonPhi > 0 {
		phis := fr.block.Instrs[:firstNonPhi]
		predIndex := slices.Index(fr.block.Preds, fr.prevBlock)
		fr.phitemps = fr.phitemps[:0]
		for _, phi := range phis {
			phi := phi.(*ssa.Phi)
			fr.phitemps = append(fr.phitemps, fr.get(phi.Edges[predIndex]))
		}
		for i, phi := range phis {
			fr.env[phi.(*ssa.Phi)] = fr.phitemps[i]
		}
	}
	return nonPhis
}

func doRecover(caller *frame) value {
	if caller != nil && !caller.panicking &&
		caller.caller != nil && caller.caller.panicking {
		caller.caller.panicking = false
		p := caller.caller.panic
		caller.caller.panic = nil
		switch p := p.(type) {
		case targetPanic:
			return p.v
		default:
			panic(abortPath{"engine-error", fmt.Sprintf("unexpected panic type %T in target call to recover()", p)})
		}
	}
	return iface{}
}

func deref(t types.Type) types.Type {
	if p, ok := t.Underlying().(*types.Pointer); ok {
		return p.Elem()
	}
	panic(fmt.Sprintf("deref: %s is not a pointer", t))
}
