package gosym

// Standard-library boundary: synchronisation is a no-op (single goroutine),
// formatting and logging are opaque, sorting is executed by the engine with
// the target's comparison closure.

import (
	"bytes"
	"encoding/hex"
	"fmt"
	"go/token"
	"go/types"
	"regexp"
	"strconv"
	"strings"
)

func nop(fr *frame, a []value) value { return nil }

func opaqueString(fr *frame, a []value) value { return opaqueStr }

func goString(v value) string {
	switch v := v.(type) {
	case string:
		return v
	case numStr:
		return opaqueStr
	}
	panic(abortPath{"engine-error", fmt.Sprintf("goString of %T", v)})
}

func byteSlice(v value, what string) []byte {
	b, ok := bytesOfValue(v)
	if !ok {
		panic(abortPath{"unsupported", what + ": symbolic or boxed bytes"})
	}
	return b
}

// callValue invokes a target function value.
func callValue(fr *frame, fn value, args ...value) value {
	return call(fr.i, fr, token.NoPos, fn, args)
}

// makeError builds an error value by running the target's errors.New.
func makeError(fr *frame, msg string) value {
	pkg := fr.i.eng.SSAPkgs["errors"]
	if pkg == nil {
		panic(abortPath{"engine-error", "package errors not loaded"})
	}
	return callValue(fr, pkg.Func("New"), msg)
}

func sortSlice(fr *frame, a []value, stable bool) value {
	it := a[0].(iface)
	s, ok := it.v.([]value)
	if !ok {
		panic(abortPath{"engine-error", fmt.Sprintf("sort.Slice of %T", it.v)})
	}
	less := a[1]
	n := len(s)
	if n > 4096 {
		panic(abortPath{"bound-exceeded", "sort.Slice of more than 4096 elements"})
	}
	// insertion sort (stable); comparisons may fork when symbolic.
	// The closure indexes the live slice, so elements are swapped in place.
	for i := 1; i < n; i++ {
		for j := i; j > 0; j-- {
			r := callValue(fr, less, j, j-1)
			if !fr.i.truth(r) {
				break
			}
			s[j], s[j-1] = s[j-1], s[j]
		}
	}
	return nil
}

func registerStd(e *Engine) {
	R := e.Register
	// ---- sync, sync/atomic
	for _, n := range []string{
		"(*sync.Mutex).Lock", "(*sync.Mutex).Unlock", "(*sync.RWMutex).Lock", "(*sync.RWMutex).Unlock",
		"(*sync.RWMutex).RLock", "(*sync.RWMutex).RUnlock", "(*sync.WaitGroup).Add", "(*sync.WaitGroup).Done",
		"(*sync.WaitGroup).Wait", "runtime.Gosched", "runtime.GC", "runtime.KeepAlive", "runtime.SetFinalizer",
		"runtime/debug.FreeOSMemory",
	} {
		R(n, nop)
	}
	R("(*sync.Mutex).TryLock", func(fr *frame, a []value) value { return true })
	R("(*sync.Once).Do", func(fr *frame, a []value) value {
		p := derefPtr(a[0], "Once.Do")
		key := fmt.Sprintf("once:%p", p)
		if _, done := fr.i.heap[key]; done {
			return nil
		}
		fr.i.heap[key] = true
		callValue(fr, a[1])
		return nil
	})
	R("(*sync/atomic.Value).Load", func(fr *frame, a []value) value {
		s := (*derefPtr(a[0], "atomic.Value.Load")).(structure)
		return s[0]
	})
	R("(*sync/atomic.Value).Store", func(fr *frame, a []value) value {
		s := (*derefPtr(a[0], "atomic.Value.Store")).(structure)
		s[0] = a[1]
		return nil
	})
	for _, ty := range []string{"Int32", "Int64", "Uint32", "Uint64", "Uintptr"} {
		R("sync/atomic.Load"+ty, func(fr *frame, a []value) value { return *derefPtr(a[0], "atomic.Load") })
		R("sync/atomic.Store"+ty, func(fr *frame, a []value) value { *derefPtr(a[0], "atomic.Store") = a[1]; return nil })
		R("sync/atomic.Add"+ty, func(fr *frame, a []value) value {
			p := derefPtr(a[0], "atomic.Add")
			*p = binop(fr.i, token.ADD, nil, *p, a[1])
			return *p
		})
		R("sync/atomic.Swap"+ty, func(fr *frame, a []value) value {
			p := derefPtr(a[0], "atomic.Swap")
			old := *p
			*p = a[1]
			return old
		})
		R("sync/atomic.CompareAndSwap"+ty, func(fr *frame, a []value) value {
			p := derefPtr(a[0], "atomic.CAS")
			if fr.i.truth(binop(fr.i, token.EQL, types.Typ[types.Int64], *p, a[1])) {
				*p = a[2]
				return true
			}
			return false
		})
	}
	// sync.Map over concrete keys
	type syncMap struct{ m *omap }
	getSM := func(fr *frame, recv value) *omap {
		p := derefPtr(recv, "sync.Map")
		key := fmt.Sprintf("syncmap:%p", p)
		if m, ok := fr.i.heap[key]; ok {
			return m.(*omap)
		}
		m := &omap{keyType: types.NewInterfaceType(nil, nil), builtin: false, idx: map[interface{}][]int{}}
		fr.i.heap[key] = m
		return m
	}
	R("(*sync.Map).Load", func(fr *frame, a []value) value {
		v, ok := getSM(fr, a[0]).lookup(fr.i, a[1])
		if !ok {
			return tuple{iface{}, false}
		}
		return tuple{v, true}
	})
	R("(*sync.Map).Store", func(fr *frame, a []value) value { getSM(fr, a[0]).insert(fr.i, a[1], a[2]); return nil })
	R("(*sync.Map).Delete", func(fr *frame, a []value) value { getSM(fr, a[0]).delete(fr.i, a[1]); return nil })
	R("(*sync.Map).LoadOrStore", func(fr *frame, a []value) value {
		m := getSM(fr, a[0])
		if v, ok := m.lookup(fr.i, a[1]); ok {
			return tuple{v, true}
		}
		m.insert(fr.i, a[1], a[2])
		return tuple{a[2], false}
	})

	// ---- formatting / logging: opaque
	for _, n := range []string{"fmt.Sprintf", "fmt.Sprint", "fmt.Sprintln", "strconv.Itoa", "strconv.FormatInt",
		"strconv.FormatUint", "strconv.Quote", "encoding/hex.EncodeToString", "strconv.FormatBool", "strconv.FormatFloat"} {
		name := n
		R(name, func(fr *frame, a []value) value {
			// concrete fast path keeps map keys / ids meaningful
			switch name {
			case "fmt.Sprintf":
				// concrete format and concrete basic arguments: format natively
				// (identifiers such as "LP-%d" feed back into state)
				if f, ok := a[0].(string); ok {
					var ga []interface{}
					okAll := true
					for _, x := range a[1].([]value) {
						it, isI := x.(iface)
						if !isI {
							okAll = false
							break
						}
						if _, hasStr := it.t.(*types.Named); hasStr {
							if b, isB := it.t.Underlying().(*types.Basic); !isB || b.Info()&types.IsInteger == 0 || strings.Contains(f, "%s") || strings.Contains(f, "%v") {
								okAll = false
								break
							}
						}
						switch v := it.v.(type) {
						case int, int8, int16, int32, int64, uint, uint8, uint16, uint32, uint64, string, bool:
							ga = append(ga, v)
						case []value:
							if b, isBytes := bytesOfValue(v); isBytes && !strings.Contains(f, "%s") && !strings.Contains(f, "%v") {
								ga = append(ga, b)
							} else {
								okAll = false
							}
						default:
							okAll = false
						}
					}
					if okAll {
						return fmt.Sprintf(f, ga...)
					}
				}
			case "strconv.Itoa":
				if _, ok := a[0].(int); ok {
					return strconv.Itoa(a[0].(int))
				}
			case "strconv.FormatUint":
				if v, ok := a[0].(uint64); ok {
					return strconv.FormatUint(v, int(asInt64(a[1])))
				}
			case "strconv.FormatInt":
				if v, ok := a[0].(int64); ok {
					return strconv.FormatInt(v, int(asInt64(a[1])))
				}
			case "encoding/hex.EncodeToString":
				if b, ok := bytesOfValue(a[0]); ok {
					return hex.EncodeToString(b)
				}
			case "strconv.FormatBool":
				if b, ok := a[0].(bool); ok {
					return strconv.FormatBool(b)
				}
			}
			return opaqueStr
		})
	}
	for _, n := range []string{"fmt.Println", "fmt.Printf", "fmt.Print", "fmt.Fprintf", "fmt.Fprintln", "fmt.Fprint",
		"log.Println", "log.Printf", "log.Print"} {
		R(n, func(fr *frame, a []value) value { return tuple{0, iface{}} })
	}
	for _, n := range []string{"log.Println", "log.Printf", "log.Print"} {
		R(n, nop)
	}
	for _, n := range []string{"log.Panic", "log.Panicf", "log.Panicln", "log.Fatal", "log.Fatalf", "log.Fatalln"} {
		name := n
		R(name, func(fr *frame, a []value) value {
			panic(targetPanic{v: iface{t: types.Typ[types.String], v: name + "(…)"}, pos: callerPos(fr)})
		})
	}
	R("os.Exit", func(fr *frame, a []value) value {
		panic(targetPanic{v: iface{t: types.Typ[types.String], v: "os.Exit"}, pos: callerPos(fr)})
	})
	R("fmt.Errorf", func(fr *frame, a []value) value { return makeError(fr, "<fmt.Errorf>") })
	R("github.com/pkg/errors.New", func(fr *frame, a []value) value { return makeError(fr, goString(a[0])) })
	R("github.com/pkg/errors.Errorf", func(fr *frame, a []value) value { return makeError(fr, "<errors.Errorf>") })
	R("github.com/pkg/errors.Wrap", func(fr *frame, a []value) value {
		if a[0].(iface).t == nil {
			return iface{}
		}
		return a[0]
	})
	R("encoding/json.Marshal", func(fr *frame, a []value) value { return tuple{[]value{}, iface{}} })
	// tmjson as a field box (same model as rlp): faithful on exported fields
	tmMarshal := func(fr *frame, a []value) (res value) {
		it := a[0].(iface)
		if it.t == nil {
			return tuple{concreteBytes([]byte("null")), iface{}}
		}
		defer func() {
			if r := recover(); r != nil {
				if ab, ok := r.(abortPath); ok && ab.kind == "unsupported" {
					// values the box cannot hold (maps ...) only occur in tags
					res = tuple{[]value{uint8('?')}, iface{}}
					return
				}
				panic(r)
			}
		}()
		return tuple{[]value{rlpBox{it.t, rlpSnapshot(it.t, it.v)}}, iface{}}
	}
	R("github.com/tendermint/tendermint/libs/json.RegisterType", nop)
	R("github.com/tendermint/tendermint/libs/json.Marshal", tmMarshal)
	R("github.com/tendermint/tendermint/libs/json.MarshalIndent", tmMarshal)
	R("github.com/tendermint/tendermint/libs/json.Unmarshal", func(fr *frame, a []value) value {
		b := a[0].([]value)
		it := a[1].(iface)
		if len(b) == 1 {
			if box, ok := b[0].(rlpBox); ok {
				pt, ok := it.t.Underlying().(*types.Pointer)
				if !ok {
					return makeError(fr, "json: Unmarshal(non-pointer)")
				}
				jsonAssign(pt.Elem(), derefPtr(it.v, "tmjson.Unmarshal target"), box.T, box.V)
				return iface{}
			}
		}
		panic(abortPath{"unsupported", "tmjson.Unmarshal of raw (non-boxed) bytes"})
	})

	// ---- bytes / strings helpers implemented natively on concrete data
	R("bytes.Equal", func(fr *frame, a []value) value {
		x, y := a[0].([]value), a[1].([]value)
		// the pseudo-element of big.Int.Bytes() stands for a whole byte string
		if xb, ok := soleBigBytes(x); ok {
			if yb, ok := soleBigBytes(y); ok {
				return mkBool(Eq(xb.T, yb.T))
			}
			return mkBool(bigBytesEqConcrete(xb, y))
		}
		if yb, ok := soleBigBytes(y); ok {
			return mkBool(bigBytesEqConcrete(yb, x))
		}
		if len(x) != len(y) {
			return false
		}
		var cs []*Term
		for k := range x {
			c := eqTerm(fr.i, types.Typ[types.Uint8], x[k], y[k])
			if c.IsConst() && !c.B {
				return false
			}
			cs = append(cs, c)
		}
		return mkBool(And(cs...))
	})
	R("bytes.Compare", func(fr *frame, a []value) value {
		bx, okx := bytesOfValue(a[0])
		by, oky := bytesOfValue(a[1])
		if okx && oky {
			return bytes.Compare(bx, by)
		}
		// symbolic bytes: lexicographic comparison, forking per position
		x, _ := a[0].([]value)
		y, _ := a[1].([]value)
		n := len(x)
		if len(y) < n {
			n = len(y)
		}
		for k := 0; k < n; k++ {
			xt, _ := intTerm(x[k])
			yt, _ := intTerm(y[k])
			if fr.i.decide(Lt(xt, yt)) {
				return -1
			}
			if fr.i.decide(Gt(xt, yt)) {
				return 1
			}
		}
		switch {
		case len(x) < len(y):
			return -1
		case len(x) > len(y):
			return 1
		}
		return 0
	})
	R("bytes.IndexByte", func(fr *frame, a []value) value {
		return bytes.IndexByte(byteSlice(a[0], "bytes.IndexByte"), a[1].(byte))
	})
	R("bytes.HasPrefix", func(fr *frame, a []value) value {
		return bytes.HasPrefix(byteSlice(a[0], "bytes.HasPrefix"), byteSlice(a[1], "bytes.HasPrefix"))
	})
	R("strings.Index", func(fr *frame, a []value) value { return strings.Index(goString(a[0]), goString(a[1])) })
	R("strings.IndexByte", func(fr *frame, a []value) value { return strings.IndexByte(goString(a[0]), a[1].(byte)) })
	R("strings.Contains", func(fr *frame, a []value) value { return strings.Contains(goString(a[0]), goString(a[1])) })
	R("strings.HasPrefix", func(fr *frame, a []value) value { return strings.HasPrefix(goString(a[0]), goString(a[1])) })
	R("strings.HasSuffix", func(fr *frame, a []value) value { return strings.HasSuffix(goString(a[0]), goString(a[1])) })
	R("strings.ToUpper", func(fr *frame, a []value) value { return strings.ToUpper(goString(a[0])) })
	R("strings.ToLower", func(fr *frame, a []value) value { return strings.ToLower(goString(a[0])) })
	R("strings.TrimSpace", func(fr *frame, a []value) value { return strings.TrimSpace(goString(a[0])) })
	R("strings.Repeat", func(fr *frame, a []value) value { return strings.Repeat(goString(a[0]), int(asInt64(a[1]))) })
	R("strings.Count", func(fr *frame, a []value) value { return strings.Count(goString(a[0]), goString(a[1])) })
	R("strings.EqualFold", func(fr *frame, a []value) value { return strings.EqualFold(goString(a[0]), goString(a[1])) })
	R("strings.Replace", func(fr *frame, a []value) value {
		return strings.Replace(goString(a[0]), goString(a[1]), goString(a[2]), int(asInt64(a[3])))
	})
	R("strings.Split", func(fr *frame, a []value) value {
		var out []value
		for _, p := range strings.Split(goString(a[0]), goString(a[1])) {
			out = append(out, p)
		}
		return out
	})
	R("strings.Join", func(fr *frame, a []value) value {
		var parts []string
		for _, p := range a[0].([]value) {
			parts = append(parts, goString(p))
		}
		return strings.Join(parts, goString(a[1]))
	})
	R("strconv.Atoi", func(fr *frame, a []value) value {
		n, err := strconv.Atoi(goString(a[0]))
		if err != nil {
			return tuple{0, makeError(fr, err.Error())}
		}
		return tuple{n, iface{}}
	})
	R("strconv.ParseUint", func(fr *frame, a []value) value {
		n, err := strconv.ParseUint(goString(a[0]), int(asInt64(a[1])), int(asInt64(a[2])))
		if err != nil {
			return tuple{uint64(0), makeError(fr, err.Error())}
		}
		return tuple{n, iface{}}
	})
	R("strconv.ParseInt", func(fr *frame, a []value) value {
		n, err := strconv.ParseInt(goString(a[0]), int(asInt64(a[1])), int(asInt64(a[2])))
		if err != nil {
			return tuple{int64(0), makeError(fr, err.Error())}
		}
		return tuple{n, iface{}}
	})
	R("encoding/hex.DecodeString", func(fr *frame, a []value) value {
		b, err := hex.DecodeString(goString(a[0]))
		if err != nil {
			return tuple{[]value(nil), makeError(fr, err.Error())}
		}
		return tuple{concreteBytes(b), iface{}}
	})

	// ---- sort
	R("sort.Slice", func(fr *frame, a []value) value { return sortSlice(fr, a, false) })
	R("sort.SliceStable", func(fr *frame, a []value) value { return sortSlice(fr, a, true) })

	// ---- regexp as native handles
	type reHandle struct{ re *regexp.Regexp }
	R("regexp.MustCompile", func(fr *frame, a []value) value {
		var cell value = reHandle{regexp.MustCompile(goString(a[0]))}
		return &cell
	})
	R("regexp.Compile", func(fr *frame, a []value) value {
		re, err := regexp.Compile(goString(a[0]))
		if err != nil {
			return tuple{(*value)(nil), makeError(fr, err.Error())}
		}
		var cell value = reHandle{re}
		return tuple{&cell, iface{}}
	})
	R("(*regexp.Regexp).MatchString", func(fr *frame, a []value) value {
		return (*derefPtr(a[0], "regexp")).(reHandle).re.MatchString(goString(a[1]))
	})
	R("(*regexp.Regexp).Match", func(fr *frame, a []value) value {
		return (*derefPtr(a[0], "regexp")).(reHandle).re.Match(byteSlice(a[1], "regexp.Match"))
	})
	R("regexp.MatchString", func(fr *frame, a []value) value {
		ok, err := regexp.MatchString(goString(a[0]), goString(a[1]))
		if err != nil {
			return tuple{false, makeError(fr, err.Error())}
		}
		return tuple{ok, iface{}}
	})

	// ---- reflect: only type descriptors kept for error messages
	R("reflect.TypeOf", func(fr *frame, a []value) value { return iface{} })

	// ---- time
	// time.Now only feeds statistics and logs in block execution; it returns the
	// zero instant (wall-clock never reaches consensus state: a use that did
	// would show up as a divergence in the C08 trace comparison).
	R("time.Now", func(fr *frame, a []value) value {
		return zero(fr.fn.Signature.Results().At(0).Type())
	})
	R("time.Since", func(fr *frame, a []value) value { return int64(0) })
}
