package gosym

// big.Float in the SMT FloatingPoint theory ("fp" float mode): a value of
// precision p is a term of sort FloatingPoint(fpEb, p), rounding is
// round-nearest-even (big.Float's default ToNearestEven).  Integers converted
// with SetInt must be < 2^64 (then Go picks precision 64 and the conversion is
// exact); larger values end the path as unsupported (a stated bound).

import (
	"fmt"
	"go/types"
	"math"
	"strings"
)

const fpE = 15

func fpSort(prec uint) Sort { return FPSort(fpE, int(prec)) }

func fpFromFloat64(x float64) bigFloat {
	bits := math.Float64bits(x)
	sign := bits >> 63
	exp := int((bits >> 52) & 0x7ff)
	mant := bits & ((1 << 52) - 1)
	if exp == 0 && mant != 0 || exp == 0x7ff {
		panic(abortPath{"unsupported", "subnormal/inf/nan float64 constant"})
	}
	var e15 int
	if exp == 0 {
		e15 = 0
	} else {
		e15 = exp - 1023 + 16383
	}
	lit := fmt.Sprintf("(fp #b%d #b%s #b%s)", sign, bin(uint64(e15), fpE), bin(mant, 52))
	return bigFloat{Prec: 53, T: Raw(lit, fpSort(53)), FP: true}
}

func bin(v uint64, n int) string {
	var sb strings.Builder
	for i := n - 1; i >= 0; i-- {
		if v>>uint(i)&1 == 1 {
			sb.WriteByte('1')
		} else {
			sb.WriteByte('0')
		}
	}
	return sb.String()
}

func fpZero(prec uint) *Term {
	return Raw(fmt.Sprintf("(_ +zero %d %d)", fpE, prec), fpSort(prec))
}

func fpWiden(f bigFloat, prec uint) *Term {
	if f.T == nil {
		return fpZero(prec)
	}
	if f.Prec == prec {
		return f.T
	}
	return Raw(fmt.Sprintf("(_ to_fp %d %d) RNE", fpE, prec), fpSort(prec), f.T)
}

func fpSetPrec(f bigFloat, prec uint) bigFloat {
	if prec == 0 {
		return bigFloat{FP: true}
	}
	return bigFloat{Prec: prec, T: fpWiden(f, prec), FP: true}
}

func fpSetInt(fr *frame, f bigFloat, x *Term) bigFloat {
	if fr.i.decide(Or(Lt(x, IntConst64(0)), Ge(x, IntConst(pow2(64))))) {
		panic(abortPath{"unsupported", "fp mode: big.Float.SetInt of a value outside [0, 2^64) (bound)"})
	}
	prec := f.Prec
	if prec == 0 {
		prec = 64
	}
	bv := Raw("(_ int2bv 64)", BVSort(64), x)
	t := Raw(fmt.Sprintf("(_ to_fp_unsigned %d %d) RNE", fpE, prec), fpSort(prec), bv)
	return bigFloat{Prec: prec, T: t, FP: true}
}

func fpBin(fr *frame, op string, z, x, y bigFloat) bigFloat {
	prec := z.Prec
	if prec == 0 {
		prec = x.Prec
		if y.Prec > prec {
			prec = y.Prec
		}
	}
	if prec == 0 {
		prec = 64
	}
	// operands are used exactly; the result is rounded once to prec
	wp := prec
	if x.Prec > wp {
		wp = x.Prec
	}
	if y.Prec > wp {
		wp = y.Prec
	}
	a, b := fpWiden(x, wp), fpWiden(y, wp)
	var name string
	switch op {
	case "+":
		name = "fp.add"
	case "-":
		name = "fp.sub"
	case "*":
		name = "fp.mul"
	case "/":
		name = "fp.div"
		if fr.i.decide(Raw("fp.isZero", BoolSort, b)) {
			panic(abortPath{"unsupported", "fp mode: division by zero (Inf/NaN)"})
		}
	}
	var t *Term
	if wp == prec {
		t = Raw(name+" RNE", fpSort(prec), a, b)
	} else {
		// big.Float rounds the exact result once to prec; computing at the
		// wider operand precision and rounding again could double-round, so
		// this case is not modelled
		panic(abortPath{"unsupported", "fp mode: operands wider than the result precision"})
	}
	return bigFloat{Prec: prec, T: t, FP: true}
}

func fpCmp(x, y bigFloat) value {
	p := x.Prec
	if y.Prec > p {
		p = y.Prec
	}
	if p == 0 {
		return 0
	}
	a, b := fpWiden(x, p), fpWiden(y, p)
	lt := Raw("fp.lt", BoolSort, a, b)
	eq := Raw("fp.eq", BoolSort, a, b)
	return mkInt(Ite(lt, IntConst64(-1), Ite(eq, IntConst64(0), IntConst64(1))), types.Int)
}
