package gosym

// Harness primitives (verifBig, verifAssume, verifAssert ...) and map ranging.

import (
	"fmt"
	"go/types"
	"math/big"

	"golang.org/x/tools/go/ssa"
)

func strArg(v value) string {
	s, ok := v.(string)
	if !ok {
		panic(abortPath{"engine-error", fmt.Sprintf("expected a concrete string, got %T", v)})
	}
	return s
}

func callerPos(fr *frame) string {
	if fr.caller != nil && fr.caller.curInstr != nil {
		return fr.i.prog.Fset.Position(fr.caller.curInstr.Pos()).String()
	}
	return ""
}

func symIntVar(fr *frame, name string, k types.BasicKind) value {
	v := fr.i.ctx.NewVar(name, IntSort)
	lo, hi := kindRange(k)
	fr.i.ctx.Constrain(And(Ge(v, IntConst(lo)), Le(v, IntConst(hi))))
	if lo.Sign() == 0 {
		v.WithHi(hi)
	}
	return symInt{v, k}
}

func registerCore(e *Engine) {
	e.Register("verif:verifBig", func(fr *frame, args []value) value {
		v := fr.i.ctx.NewVar(strArg(args[0]), IntSort)
		var cell value = bigInt{v}
		return &cell
	})
	// verifBigNN / verifBigPos: symbolic big.Int constrained >= 0 / > 0 without
	// a feasibility query (the constraint on a fresh variable is satisfiable).
	e.Register("verif:verifBigNN", func(fr *frame, args []value) value {
		v := fr.i.ctx.NewVar(strArg(args[0]), IntSort)
		fr.i.ctx.Constrain(newTerm(">=", BoolSort, v, IntConst64(0)))
		v.WithNN()
		var cell value = bigInt{v}
		return &cell
	})
	e.Register("verif:verifBigPos", func(fr *frame, args []value) value {
		v := fr.i.ctx.NewVar(strArg(args[0]), IntSort)
		fr.i.ctx.Constrain(Gt(v, IntConst64(0)))
		v.WithNN()
		var cell value = bigInt{v}
		return &cell
	})
	// verifU32Range(name, lo, hi) / verifU64Range: lo <= v <= hi
	e.Register("verif:verifU32Range", func(fr *frame, args []value) value {
		v := symIntVar(fr, strArg(args[0]), types.Uint32).(symInt)
		lo, _ := intTerm(args[1])
		hi, _ := intTerm(args[2])
		fr.i.ctx.Constrain(And(Ge(v.T, lo), Le(v.T, hi)))
		return v
	})
	e.Register("verif:verifU64Range", func(fr *frame, args []value) value {
		v := symIntVar(fr, strArg(args[0]), types.Uint64).(symInt)
		lo, _ := intTerm(args[1])
		hi, _ := intTerm(args[2])
		fr.i.ctx.Constrain(And(Ge(v.T, lo), Le(v.T, hi)))
		return v
	})
	e.Register("verif:verifU64", func(fr *frame, args []value) value { return symIntVar(fr, strArg(args[0]), types.Uint64) })
	e.Register("verif:verifU32", func(fr *frame, args []value) value { return symIntVar(fr, strArg(args[0]), types.Uint32) })
	e.Register("verif:verifU16", func(fr *frame, args []value) value { return symIntVar(fr, strArg(args[0]), types.Uint16) })
	e.Register("verif:verifByte", func(fr *frame, args []value) value { return symIntVar(fr, strArg(args[0]), types.Uint8) })
	e.Register("verif:verifI64", func(fr *frame, args []value) value { return symIntVar(fr, strArg(args[0]), types.Int64) })
	e.Register("verif:verifInt", func(fr *frame, args []value) value { return symIntVar(fr, strArg(args[0]), types.Int) })
	e.Register("verif:verifBool", func(fr *frame, args []value) value {
		return symBool{fr.i.ctx.NewVar(strArg(args[0]), BoolSort)}
	})
	e.Register("verif:verifAssume", func(fr *frame, args []value) value {
		fr.i.ctx.assume(boolTerm(args[0]))
		return nil
	})
	e.Register("verif:verifAssert", func(fr *frame, args []value) value {
		fr.i.ctx.assert(strArg(args[0]), boolTerm(args[1]), callerPos(fr))
		return nil
	})
	// verifChoice(name, n) returns a concrete int in [0,n): the engine forks
	// over all n values (used for aliasing configurations inside a harness).
	e.Register("verif:verifChoice", func(fr *frame, args []value) value {
		n := int(asInt64(args[1]))
		v := fr.i.ctx.NewVar(strArg(args[0]), IntSort)
		fr.i.ctx.Constrain(And(Ge(v, IntConst64(0)), Lt(v, IntConst64(int64(n)))))
		for k := 0; k < n-1; k++ {
			if fr.i.decide(Eq(v, IntConst64(int64(k)))) {
				return k
			}
		}
		return n - 1
	})
	// verifNote(label, vals...) records observable values for differential
	// validation against the native run.
	e.Register("verif:verifNote", func(fr *frame, args []value) value {
		var terms []*Term
		for _, a := range args[1].([]value) {
			terms = append(terms, noteTerm(a))
		}
		fr.i.ctx.note(strArg(args[0]), terms, nil)
		return nil
	})
	// verifConfig(name) returns the concrete configuration value chosen by
	// the runner for this harness instance.
	e.Register("verif:verifConfig", func(fr *frame, args []value) value {
		name := strArg(args[0])
		if fr.i.ctx.opts != nil {
			if v, ok := fr.i.ctx.opts.Config[name]; ok {
				return int(v)
			}
		}
		return 0
	})
	// verifUFConstArg(name, call, arg) returns numerator and denominator of a
	// constant argument of the call-th recorded application of an
	// uninterpreted function (nil, nil when absent or not constant): lets a
	// harness assert *which* arguments the code passes to an abstracted callee.
	e.Register("verif:verifUFConstArg", func(fr *frame, args []value) value {
		name := strArg(args[0])
		call, arg := int(asInt64(args[1])), int(asInt64(args[2]))
		k := 0
		for _, u := range fr.i.ctx.ufApps {
			if u.Name != name {
				continue
			}
			if k == call && arg < len(u.Args) {
				if r, ok := realIsConst(u.Args[arg]); ok {
					return tuple{bigCell(IntConst(r.Num())), bigCell(IntConst(r.Denom()))}
				}
				if u.Args[arg].IsConst() && u.Args[arg].S.K == SInt {
					return tuple{bigCell(u.Args[arg]), bigCell(IntConst64(1))}
				}
			}
			k++
		}
		return tuple{(*value)(nil), (*value)(nil)}
	})
	// verifDeepEq(a, b): structural equality of two values of the same static
	// type as one boolean term (no forking).
	e.Register("verif:verifDeepEq", func(fr *frame, args []value) value {
		x, y := args[0].(iface), args[1].(iface)
		if x.t == nil || y.t == nil {
			return x.t == nil && y.t == nil
		}
		if !types.Identical(x.t, y.t) {
			return false
		}
		t := eqDeep(fr.i, x.t, x.v, y.v)
		if t.IsConst() {
			return t.B
		}
		return symBool{t}
	})
	// verifSymbolic reports whether the harness runs under the engine.
	e.Register("verif:verifSymbolic", func(fr *frame, args []value) value { return true })
	// verifIsConcrete... debugging aid
	e.Register("verif:verifLog", func(fr *frame, args []value) value {
		if fr.i.eng.Verbose {
			fmt.Printf("verifLog: %s\n", toString(args[0]))
		}
		return nil
	})
}

func noteTerm(a value) *Term {
	if it, ok := a.(iface); ok {
		a = it.v
	}
	switch a := a.(type) {
	case *value:
		if a == nil {
			return IntConst64(-999999)
		}
		if b, ok := (*a).(bigInt); ok {
			return b.T
		}
	case bool, symBool:
		return Ite(boolTerm(a), IntConst64(1), IntConst64(0))
	case string:
		return IntConst64(int64(len(a)))
	}
	if _, ok := a.(symInt); ok {
		t, _ := intTerm(a)
		return t
	}
	if _, ok := intKindOf(a); ok {
		t, _ := intTerm(a)
		return t
	}
	panic(abortPath{"engine-error", fmt.Sprintf("verifNote: unsupported value %T", a)})
}

// mapRange builds the iterator for a range over a map.  By default entries
// are visited in insertion order (deterministic); in MapOrders mode every
// permutation (k <= 3) or every rotation plus reversal (k > 3) is explored.
func (e *Engine) mapRange(fr *frame, instr *ssa.Range, m *omap) iter {
	live := m.liveIndices()
	it := &omapIter{m: m, perm: live}
	if fr.i.raceState() != nil {
		it.i = fr.i
		fr.i.raceMap(m, "mread")
	}
	if m != nil {
		it.next0 = len(m.keys)
	}
	opts := fr.i.ctx.opts
	if opts == nil || !opts.MapOrders || len(live) < 2 {
		return it
	}
	if fr.i.ctx.orderDeviated {
		// bound: one site per path iterates in a non-default order (every site
		// in every order, the others default); products of deviations at
		// several sites are outside the bound
		return it
	}
	perms := mapPerms(len(live))
	name := fmt.Sprintf("maporder@%s", fr.i.prog.Fset.Position(instr.Pos()))
	v := fr.i.ctx.NewVar(name, IntSort)
	fr.i.ctx.Constrain(And(Ge(v, IntConst64(0)), Lt(v, IntConst64(int64(len(perms))))))
	pick := len(perms) - 1
	from := len(fr.i.ctx.trace)
	for k := 0; k < len(perms)-1; k++ {
		if fr.i.decide(Eq(v, IntConst64(int64(k)))) {
			pick = k
			break
		}
	}
	// remember which trace entries are iteration-order choices: paths that
	// differ only in those must produce the same observable trace
	for k := from; k < len(fr.i.ctx.trace); k++ {
		fr.i.ctx.orderIdx = append(fr.i.ctx.orderIdx, k)
	}
	if pick != 0 {
		fr.i.ctx.orderDeviated = true
		fr.i.ctx.orderSites = append(fr.i.ctx.orderSites, fmt.Sprintf("%s#%d", name, pick))
	}
	p := make([]int, len(live))
	for a, b := range perms[pick] {
		p[a] = live[b]
	}
	it.perm = p
	return it
}

func mapPerms(n int) [][]int {
	if n <= 3 {
		var out [][]int
		var rec func(cur []int, used []bool)
		rec = func(cur []int, used []bool) {
			if len(cur) == n {
				out = append(out, append([]int{}, cur...))
				return
			}
			for i := 0; i < n; i++ {
				if !used[i] {
					used[i] = true
					rec(append(cur, i), used)
					used[i] = false
				}
			}
		}
		rec(nil, make([]bool, n))
		return out
	}
	var out [][]int
	for r := 0; r < n; r++ {
		p := make([]int, n)
		for i := range p {
			p[i] = (i + r) % n
		}
		out = append(out, p)
	}
	rev := make([]int, n)
	for i := range rev {
		rev[i] = n - 1 - i
	}
	out = append(out, rev)
	return out
}

var _ = big.NewInt
