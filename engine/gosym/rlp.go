package gosym

// Field-box model of the repository's rlp package (reflective struct layer):
// encoding snapshots the RLP-visible fields of a value, decoding writes them
// back.  Assumption carried: rlp round-trips faithfully and is injective on
// the exported fields (its byte-level scalar layer is checked separately).

import (
	"fmt"
	"go/types"
	"reflect"
)

// rlpBox is the single pseudo-element of an encoded []byte (or the value of
// its string conversion).
type rlpBox struct {
	T types.Type // static type of the snapshot V
	V value
}

func rlpVisible(st *types.Struct) []int {
	var idx []int
	for i := 0; i < st.NumFields(); i++ {
		if st.Field(i).Exported() {
			tag := reflect.StructTag(st.Tag(i)).Get("rlp")
			if tag == "-" {
				continue
			}
			idx = append(idx, i)
		}
	}
	return idx
}

func isBigIntType(t types.Type) bool {
	n, ok := t.(*types.Named)
	return ok && n.Obj().Pkg() != nil && n.Obj().Pkg().Path() == "math/big" && n.Obj().Name() == "Int"
}

// rlpSnapshot deep-copies the RLP-visible part of v (of static type t).
func rlpSnapshot(t types.Type, v value) value {
	if isBigIntType(t) {
		return v // bigInt values are immutable
	}
	switch u := t.Underlying().(type) {
	case *types.Pointer:
		p := v.(*value)
		if p == nil {
			return (*value)(nil)
		}
		cell := rlpSnapshot(u.Elem(), *p)
		return &cell
	case *types.Struct:
		s, ok := v.(structure)
		if !ok {
			return v
		}
		out := make(structure, len(s))
		vis := map[int]bool{}
		for _, i := range rlpVisible(u) {
			vis[i] = true
		}
		for i := range s {
			if vis[i] {
				out[i] = rlpSnapshot(u.Field(i).Type(), s[i])
			} else {
				out[i] = zero(u.Field(i).Type())
			}
		}
		return out
	case *types.Array:
		a := v.(array)
		out := make(array, len(a))
		for i := range a {
			out[i] = rlpSnapshot(u.Elem(), a[i])
		}
		return out
	case *types.Slice:
		s := v.([]value)
		if s == nil {
			return []value(nil)
		}
		out := make([]value, len(s))
		for i := range s {
			out[i] = rlpSnapshot(u.Elem(), s[i])
		}
		return out
	case *types.Interface:
		it := v.(iface)
		if it.t == nil {
			return it
		}
		return iface{t: it.t, v: rlpSnapshot(it.t, it.v)}
	case *types.Map, *types.Signature, *types.Chan:
		panic(abortPath{"unsupported", fmt.Sprintf("rlp encoding of %s", t)})
	}
	return v
}

// rlpAssign writes snapshot src (of type st) into the value at dst (type dt),
// following rlp's decoding rules for nil pointers and empty slices.
func rlpAssign(dt types.Type, dst *value, st types.Type, src value, nilTag bool) {
	boxAssign(dt, dst, st, src, nilTag, false)
}

// jsonAssign is the same with JSON's rules: nil pointers and nil slices stay nil.
func jsonAssign(dt types.Type, dst *value, st types.Type, src value) {
	boxAssign(dt, dst, st, src, true, true)
}

func boxAssign(dt types.Type, dst *value, st types.Type, src value, nilTag, js bool) {
	if js {
		nilTag = true
	}
	rlpAssign := func(dt types.Type, dst *value, st types.Type, src value, nilTag bool) {
		boxAssign(dt, dst, st, src, nilTag, js)
	}
	if js {
		if s, ok := src.([]value); ok && s == nil {
			if _, isSlice := dt.Underlying().(*types.Slice); isSlice {
				*dst = []value(nil)
				return
			}
		}
	}
	if isBigIntType(dt) {
		if b, ok := src.(bigInt); ok {
			*dst = b
			return
		}
		panic(abortPath{"unsupported", fmt.Sprintf("rlp decode of %T into big.Int", src)})
	}
	switch du := dt.Underlying().(type) {
	case *types.Pointer:
		var sp *value
		var sElem types.Type
		if sptr, ok := st.Underlying().(*types.Pointer); ok {
			sp = src.(*value)
			sElem = sptr.Elem()
			if sp == nil {
				if nilTag {
					*dst = (*value)(nil)
					return
				}
				cell := zero(du.Elem())
				*dst = &cell
				return
			}
			cell := zero(du.Elem())
			rlpAssign(du.Elem(), &cell, sElem, *sp, false)
			*dst = &cell
			return
		}
		// value encoded, pointer decoded
		cell := zero(du.Elem())
		rlpAssign(du.Elem(), &cell, st, src, false)
		*dst = &cell
	case *types.Struct:
		if sptr, ok := st.Underlying().(*types.Pointer); ok {
			sp := src.(*value)
			if sp == nil {
				*dst = zero(dt)
				return
			}
			rlpAssign(dt, dst, sptr.Elem(), *sp, false)
			return
		}
		su, ok := st.Underlying().(*types.Struct)
		if !ok {
			panic(abortPath{"unsupported", fmt.Sprintf("rlp decode of %s into %s", st, dt)})
		}
		ds, ok := (*dst).(structure)
		if !ok {
			nv := zero(dt)
			*dst = nv
			ds = nv.(structure)
		}
		ss := src.(structure)
		dv, sv := rlpVisible(du), rlpVisible(su)
		for k := 0; k < len(dv); k++ {
			tag := reflect.StructTag(du.Tag(dv[k])).Get("rlp")
			if k >= len(sv) {
				if tag == "tail" || tag == "optional" {
					ds[dv[k]] = []value{}
					continue
				}
				panic(targetPanic{v: iface{t: types.Typ[types.String], v: "rlp: too few elements"}})
			}
			rlpAssign(du.Field(dv[k]).Type(), &ds[dv[k]], su.Field(sv[k]).Type(), ss[sv[k]], tag == "nil")
		}
	case *types.Array:
		sa := src.(array)
		da := make(array, len(sa))
		se := st.Underlying().(*types.Array).Elem()
		for i := range sa {
			da[i] = zero(du.Elem())
			rlpAssign(du.Elem(), &da[i], se, sa[i], false)
		}
		*dst = da
	case *types.Slice:
		ss := src.([]value)
		se := st.Underlying().(*types.Slice).Elem()
		out := make([]value, len(ss))
		for i := range ss {
			out[i] = zero(du.Elem())
			rlpAssign(du.Elem(), &out[i], se, ss[i], false)
		}
		*dst = out
	case *types.Basic:
		*dst = src
	default:
		*dst = src
	}
}

func registerRLP(e *Engine) {
	pkg := e.ModulePath + "/rlp"
	e.Register(pkg+".EncodeToBytes", func(fr *frame, a []value) value {
		it := a[0].(iface)
		if it.t == nil {
			return tuple{[]value{uint8(0xc0)}, iface{}}
		}
		// raw byte slices and small unsigned integers get their real encoding
		if b, ok := bytesOfValue(it.v); ok {
			if _, isSlice := it.t.Underlying().(*types.Slice); isSlice {
				return tuple{[]value{rlpBox{it.t, concreteBytes(b)}}, iface{}}
			}
		}
		return tuple{[]value{rlpBox{it.t, rlpSnapshot(it.t, it.v)}}, iface{}}
	})
	e.Register(pkg+".DecodeBytes", func(fr *frame, a []value) value {
		b := a[0].([]value)
		it := a[1].(iface)
		if len(b) == 1 {
			if box, ok := b[0].(rlpBox); ok {
				pt, ok := it.t.Underlying().(*types.Pointer)
				if !ok {
					return makeError(fr, "rlp: decode target must be a pointer")
				}
				dst := derefPtr(it.v, "rlp.DecodeBytes target")
				rlpAssign(pt.Elem(), dst, box.T, box.V, false)
				return iface{}
			}
		}
		// an encoded value followed by further bytes: DecodeBytes rejects
		// trailing input (ErrMoreThanOneValue); nothing at all: unexpected EOF
		if len(b) > 1 {
			if _, ok := b[0].(rlpBox); ok {
				return makeError(fr, "rlp: input contains more than one value")
			}
		}
		if len(b) == 0 {
			return makeError(fr, "unexpected EOF")
		}
		panic(abortPath{"unsupported", "rlp.DecodeBytes of raw (non-boxed) bytes"})
	})
	// rlp.Decode(r, val) reads ONE value from the reader and leaves the rest
	// unread (unlike DecodeBytes it does not reject trailing input).  Modelled
	// for *bytes.Reader over boxed bytes.
	e.Register(pkg+".Decode", func(fr *frame, a []value) value {
		r := a[0].(iface)
		it := a[1].(iface)
		rp, ok := r.v.(*value)
		if !ok || rp == nil || r.t == nil || r.t.String() != "*bytes.Reader" {
			panic(abortPath{"unsupported", fmt.Sprintf("rlp.Decode from a %v", r.t)})
		}
		st := (*rp).(structure)
		s, _ := st[0].([]value)
		pos := int(asInt64(st[1]))
		if pos >= len(s) {
			return makeError(fr, "EOF")
		}
		box, isBox := s[pos].(rlpBox)
		if !isBox {
			panic(abortPath{"unsupported", "rlp.Decode of raw (non-boxed) bytes"})
		}
		pt, ok := it.t.Underlying().(*types.Pointer)
		if !ok {
			return makeError(fr, "rlp: decode target must be a pointer")
		}
		dst := derefPtr(it.v, "rlp.Decode target")
		rlpAssign(pt.Elem(), dst, box.T, box.V, false)
		st[1] = int64(pos + 1)
		return iface{}
	})
}
