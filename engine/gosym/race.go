package gosym

// Map-race prediction over two sequential traces (C25).
//
// verifConcurrently(f, g) runs f as thread 1 and then g as thread 2 on the same
// state, recording for each thread its lock operations (sync.Mutex and
// sync.RWMutex, identified by address) and its accesses to Go maps (identified
// by the map object).  The interleaving is then made symbolic: for an access of
// thread 1 and each conflicting access of thread 2 to the same map, integer
// timestamps stand for the acquisitions of the locks each thread holds at its
// access and for the thread's last critical section, closed before the access,
// on every mutex the other thread holds there in a conflicting mode (two read
// sections do not conflict); program order and "closed before the other thread
// took the lock it still holds" constrain them (see predictRaces).  The
// assertion "the two accesses cannot coincide" is posed to the SMT portfolio
// like any other assertion: unsat = ordered by locks in every interleaving of
// these two traces; sat = a schedule in which a map is read or iterated by one
// thread while the other writes it, which the Go runtime answers with a fatal
// error.  The model (timestamps) is the schedule.
//
// Trace-based: the two traces are those of the sequential run; an interleaving
// that makes a thread take a different branch is outside the claim.

import (
	"fmt"
	"sort"
	"strings"
)

type syncEvent struct {
	Thread int
	Kind   string // acq, racq, rel, rrel, mread, mwrite
	Obj    string
	Fn     string
	Pos    string
}

type raceTrace struct {
	thread int
	events []syncEvent
}

func (i *interpreter) raceState() *raceTrace {
	r, _ := i.heap["race"].(*raceTrace)
	return r
}

func (i *interpreter) raceRecord(kind, obj string) {
	r := i.raceState()
	if r == nil || r.thread == 0 {
		return
	}
	ev := syncEvent{Thread: r.thread, Kind: kind, Obj: obj}
	// the innermost frame of the code under test (not of the runtime models)
	for fr := i.curFrame; fr != nil; fr = fr.caller {
		if fr.fn == nil {
			continue
		}
		name := fr.fn.String()
		if strings.HasPrefix(name, "(*sync.") || strings.HasPrefix(name, "sync.") {
			continue
		}
		ev.Fn = name
		if fr.curInstr != nil && fr.curInstr.Pos().IsValid() {
			ev.Pos = i.prog.Fset.Position(fr.curInstr.Pos()).String()
		} else if fr.fn.Pos().IsValid() {
			ev.Pos = i.prog.Fset.Position(fr.fn.Pos()).String()
		}
		break
	}
	r.events = append(r.events, ev)
}

func (i *interpreter) raceMap(m *omap, kind string) {
	if m == nil {
		return
	}
	if r := i.raceState(); r == nil || r.thread == 0 {
		return
	}
	i.raceRecord(kind, fmt.Sprintf("map@%p", m))
}

type critSection struct {
	obj      string
	write    bool
	acq, rel int // event indices; rel = -1 if never released in the trace
}

func sectionsOf(evs []syncEvent, idx []int) []critSection {
	var out []critSection
	open := map[string][]int{} // obj+mode -> stack of indices into out
	for _, k := range idx {
		e := evs[k]
		switch e.Kind {
		case "acq", "racq":
			out = append(out, critSection{obj: e.Obj, write: e.Kind == "acq", acq: k, rel: -1})
			key := e.Obj + "|" + e.Kind
			open[key] = append(open[key], len(out)-1)
		case "rel", "rrel":
			key := e.Obj + "|acq"
			if e.Kind == "rrel" {
				key = e.Obj + "|racq"
			}
			if st := open[key]; len(st) > 0 {
				out[st[len(st)-1]].rel = k
				open[key] = st[:len(st)-1]
			}
		}
	}
	return out
}

func heldAt(secs []critSection, at int) []string {
	var h []string
	for _, s := range secs {
		if s.acq < at && (s.rel == -1 || s.rel > at) {
			m := "r"
			if s.write {
				m = "w"
			}
			h = append(h, s.obj+":"+m)
		}
	}
	sort.Strings(h)
	return h
}

func registerRace(e *Engine) {
	lockOp := func(kind string) intrinsic {
		return func(fr *frame, a []value) value {
			if p, ok := a[0].(*value); ok && p != nil {
				fr.i.raceRecord(kind, fmt.Sprintf("mutex@%p", p))
			}
			return nil
		}
	}
	e.Register("(*sync.Mutex).Lock", lockOp("acq"))
	e.Register("(*sync.Mutex).Unlock", lockOp("rel"))
	e.Register("(*sync.RWMutex).Lock", lockOp("acq"))
	e.Register("(*sync.RWMutex).Unlock", lockOp("rel"))
	e.Register("(*sync.RWMutex).RLock", lockOp("racq"))
	e.Register("(*sync.RWMutex).RUnlock", lockOp("rrel"))

	// verifConcurrently(f, g func())
	e.Register("verif:verifConcurrently", func(fr *frame, a []value) value {
		i := fr.i
		r := &raceTrace{}
		i.heap["race"] = r
		r.thread = 1
		callValue(fr, a[0])
		r.thread = 2
		callValue(fr, a[1])
		r.thread = 0
		i.heap["race"] = nil
		i.ctx.stubs["verifConcurrently: two sequential traces, interleavings decided symbolically (lock operations and map accesses recorded)"]++
		predictRaces(fr, r.events)
		return nil
	})
}

func predictRaces(fr *frame, evs []syncEvent) {
	c := fr.i.ctx
	var lockIdx [3][]int
	for k, e := range evs {
		if strings.HasPrefix(e.Obj, "mutex@") {
			lockIdx[e.Thread] = append(lockIdx[e.Thread], k)
		}
	}
	secs := [3][]critSection{nil, sectionsOf(evs, lockIdx[1]), sectionsOf(evs, lockIdx[2])}

	// candidate pairs: same map, different threads, at least one write;
	// one representative per (function, kind, held locks) on either side
	type access struct {
		idx  int
		held []string
	}
	byMap := map[string][3][]access{}
	seenSig := map[string]bool{}
	for k, e := range evs {
		if !strings.HasPrefix(e.Obj, "map@") {
			continue
		}
		h := heldAt(secs[e.Thread], k)
		sig := fmt.Sprintf("%d|%s|%s|%s|%s", e.Thread, e.Obj, e.Kind, e.Fn, strings.Join(h, ","))
		if seenSig[sig] {
			continue
		}
		seenSig[sig] = true
		cur := byMap[e.Obj]
		cur[e.Thread] = append(cur[e.Thread], access{k, h})
		byMap[e.Obj] = cur
	}
	maps := make([]string, 0, len(byMap))
	for m := range byMap {
		maps = append(maps, m)
	}
	sort.Strings(maps)

	// open(t, at): the critical sections of thread t open at event index at,
	// in acquisition order.  Bound: they must be properly nested with respect
	// to the sections closed before at (lock; defer unlock) - a section that
	// was open when a still-held lock was taken must still be open.
	open := func(t, at int) []critSection {
		var h []critSection
		for _, s := range secs[t] {
			if s.acq < at && (s.rel == -1 || s.rel > at) {
				h = append(h, s)
			}
		}
		for _, hs := range h {
			for _, s := range secs[t] {
				if s.acq < hs.acq && s.rel > hs.acq && s.rel < at {
					panic(abortPath{"unsupported", "race prediction: hand-over-hand locking (a lock taken inside a critical section outlives it)"})
				}
			}
		}
		return h
	}
	// lastClosed(t, at, obj, anyMode): the last section of thread t on mutex obj
	// that was closed before at (write sections only unless anyMode)
	lastClosed := func(t, at int, obj string, anyMode bool) (critSection, bool) {
		var best critSection
		found := false
		for _, s := range secs[t] {
			if s.obj == obj && s.rel >= 0 && s.rel < at && (anyMode || s.write) {
				if !found || s.rel > best.rel {
					best, found = s, true
				}
			}
		}
		return best, found
	}

	npairs := 0
	for _, m := range maps {
		acc := byMap[m]
		for _, x := range acc[1] {
			// one assertion per access of the query thread: it coincides with
			// none of the conflicting accesses of the block thread to that map
			var alts []*Term
			var items, poss []string
			for _, y := range acc[2] {
				ex, ey := evs[x.idx], evs[y.idx]
				if ex.Kind != "mwrite" && ey.Kind != "mwrite" {
					continue
				}
				npairs++
				// The schedule as symbolic timestamps.  Relevant events of a thread:
				// the acquisitions of the locks it holds at its access and, for every
				// mutex the other thread holds at its access in a conflicting mode,
				// its own last critical section on that mutex closed before the
				// access (earlier ones precede it in program order).  Two closed
				// sections never constrain each other: they can be ordered either way.
				h := [3][]critSection{nil, open(1, x.idx), open(2, y.idx)}
				at := [3]int{0, x.idx, y.idx}
				ts := map[int]*Term{}
				var cond []*Term
				tvar := func(t, k int) *Term {
					if v, ok := ts[k]; ok {
						return v
					}
					v := c.Fresh(fmt.Sprintf("sched.t%d.e%d", t, k), IntSort)
					ts[k] = v
					return v
				}
				for t := 1; t <= 2; t++ {
					o := 3 - t
					for _, hs := range h[t] {
						tvar(t, hs.acq)
					}
					for _, ho := range h[o] {
						// both hold the same mutex in conflicting modes: impossible
						for _, hs := range h[t] {
							if hs.obj == ho.obj && (hs.write || ho.write) {
								cond = append(cond, FalseT)
							}
						}
						if s, ok := lastClosed(t, at[t], ho.obj, ho.write); ok {
							// closed before the other thread took the lock it still holds
							cond = append(cond, Lt(tvar(t, s.rel), tvar(o, ho.acq)))
							tvar(t, s.acq)
						}
					}
				}
				va := c.Fresh(fmt.Sprintf("sched.access.t1.e%d", x.idx), IntSort)
				vb := c.Fresh(fmt.Sprintf("sched.access.t2.e%d", y.idx), IntSort)
				for t := 1; t <= 2; t++ {
					var ks []int
					for k := range ts {
						if evs[k].Thread == t {
							ks = append(ks, k)
						}
					}
					sort.Ints(ks)
					acc := va
					if t == 2 {
						acc = vb
					}
					for n, k := range ks {
						if n > 0 {
							cond = append(cond, Lt(ts[ks[n-1]], ts[k]))
						}
						cond = append(cond, Lt(ts[k], acc))
					}
				}
				cond = append(cond, Eq(va, vb))
				alts = append(alts, And(cond...))
				items = append(items, fmt.Sprintf("%s %s [%s]", kindWord(ey.Kind), shortFn(ey.Fn), strings.Join(y.held, ",")))
				poss = append(poss, ey.Pos)
			}
			if len(alts) == 0 {
				continue
			}
			ex := evs[x.idx]
			label := fmt.Sprintf("C25:no-map-race %s %s [%s] ~ %s", kindWord(ex.Kind), shortFn(ex.Fn), strings.Join(x.held, ","), strings.Join(items, " | "))
			c.assert(normaliseLockNames(label), Not(Or(alts...)), ex.Pos+" ~ "+strings.Join(poss, " | "))
		}
	}
	if npairs == 0 {
		c.assert("C25:no-conflicting-map-accesses", TrueT, "")
	}
}

func kindWord(k string) string {
	if k == "mwrite" {
		return "write"
	}
	return "read"
}

// shortFn renders an SSA function name the way Go stack traces do, without the
// directory part of the package path and without closure suffixes:
// "(*a/b/swap.SwapV2).swapPools$1" -> "swap.(*SwapV2).swapPools".
func shortFn(fn string) string {
	if k := strings.Index(fn, "$"); k >= 0 {
		fn = fn[:k]
	}
	ptr := strings.HasPrefix(fn, "(*")
	recv := strings.HasPrefix(fn, "(")
	fn = strings.TrimPrefix(strings.TrimPrefix(fn, "(*"), "(")
	if k := strings.LastIndex(fn, "/"); k >= 0 {
		fn = fn[k+1:]
	}
	if !recv {
		return fn
	}
	k := strings.Index(fn, ").")
	if k < 0 {
		return fn
	}
	typ, method := fn[:k], fn[k+2:]
	d := strings.Index(typ, ".")
	if d < 0 {
		return fn
	}
	if ptr {
		return typ[:d] + ".(*" + typ[d+1:] + ")." + method
	}
	return typ[:d] + "." + typ[d+1:] + "." + method
}

// normaliseLockNames replaces mutex addresses (which differ from run to run)
// by m1, m2, ... in order of appearance, so that labels are stable.
func normaliseLockNames(s string) string {
	names := map[string]string{}
	var sb strings.Builder
	for {
		k := strings.Index(s, "mutex@")
		if k < 0 {
			sb.WriteString(s)
			break
		}
		sb.WriteString(s[:k])
		j := k + len("mutex@")
		for j < len(s) && (s[j] == 'x' || s[j] >= '0' && s[j] <= '9' || s[j] >= 'a' && s[j] <= 'f') {
			j++
		}
		id := s[k:j]
		if _, ok := names[id]; !ok {
			names[id] = fmt.Sprintf("m%d", len(names)+1)
		}
		sb.WriteString(names[id])
		s = s[j:]
	}
	return sb.String()
}
