package gosym

// TreeModel / KVModel: contract-level models of cosmos/iavl and tm-db.
// An ordered map from concrete key bytes to value boxes, with versions and a
// per-run write log.  Assumptions carried: iavl and the DB are correct
// key-value stores; SaveVersion is atomic.

import (
	"fmt"
	"sort"
)

type kvStore struct {
	m map[string]value
}

func newKV() *kvStore { return &kvStore{m: map[string]value{}} }

func (k *kvStore) clone() *kvStore {
	n := newKV()
	for a, b := range k.m {
		n.m[a] = b
	}
	return n
}

func (k *kvStore) sortedKeys() []string {
	ks := make([]string, 0, len(k.m))
	for a := range k.m {
		ks = append(ks, a)
	}
	sort.Strings(ks)
	return ks
}

type WriteRec struct {
	Store string
	Op    string // set, remove, saveversion
	Key   string
	Val   value
}

type treeModel struct {
	name     string
	versions map[int64]*kvStore
	working  *kvStore
	version  int64
	initial  int64
	i        *interpreter
	workCell *value // the embedded *ImmutableTree of the MutableTree struct
}

func (m *treeModel) sync() { *m.workCell = immTreeH{m.working, m.version} }

type mutTreeH struct{ m *treeModel }
type immTreeH struct {
	kv      *kvStore
	version int64
}

type memDBH struct {
	kv   *kvStore
	name string
}

func (i *interpreter) writeLog() *[]WriteRec {
	if w, ok := i.heap["writelog"]; ok {
		return w.(*[]WriteRec)
	}
	w := &[]WriteRec{}
	i.heap["writelog"] = w
	return w
}

func keyString(v value, what string) string {
	b, ok := bytesOfValue(v)
	if !ok {
		panic(abortPath{"unsupported", what + ": symbolic key bytes"})
	}
	return string(b)
}

// keyStringFr is keyString for keys that may contain (at most two) symbolic
// bytes: each is case-split over its 256 values (the store is keyed by
// concrete strings).
func keyStringFr(fr *frame, v value, what string) string {
	s, ok := v.([]value)
	if !ok {
		return keyString(v, what)
	}
	nsym := 0
	for i, e := range s {
		if sv, isSym := e.(symInt); isSym {
			nsym++
			if nsym > 2 {
				panic(abortPath{"unsupported", what + ": more than two symbolic key bytes"})
			}
			// the decision is taken on the term; the slice itself is left untouched
			c := fr.concretize(sv, 255, what)
			cp := make([]value, len(s))
			copy(cp, s)
			cp[i] = uint8(asInt64(c))
			s = cp
		}
	}
	return keyString(s, what)
}

func mutTreeOf(i *interpreter, v value) *treeModel {
	p := derefPtr(v, "*iavl.MutableTree")
	h, ok := i.heap[fmt.Sprintf("mut:%p", p)]
	if !ok {
		panic(abortPath{"engine-error", fmt.Sprintf("not a tree model: %T", *p)})
	}
	return h.(*treeModel)
}

func immTree(v value) immTreeH {
	p := derefPtr(v, "*iavl.ImmutableTree")
	h, ok := (*p).(immTreeH)
	if !ok {
		panic(abortPath{"engine-error", fmt.Sprintf("not an immutable tree model: %T", *p)})
	}
	return h
}

func newImm(kv *kvStore, version int64) value {
	var cell value = immTreeH{kv, version}
	return &cell
}

func dbIdentity(v value) string {
	if it, ok := v.(iface); ok {
		v = it.v
	}
	if p, ok := v.(*value); ok && p != nil {
		return fmt.Sprintf("%p", p)
	}
	return "nil"
}

func iterateKV(fr *frame, kv *kvStore, start, end value, ascending bool, fn value) bool {
	keys := kv.sortedKeys()
	var lo, hi string
	hasLo, hasHi := false, false
	if s, ok := start.([]value); ok && s != nil {
		lo, hasLo = keyStringFr(fr, start, "IterateRange"), true
	}
	if s, ok := end.([]value); ok && s != nil {
		hi, hasHi = keyStringFr(fr, end, "IterateRange"), true
	}
	var sel []string
	for _, k := range keys {
		if hasLo && k < lo {
			continue
		}
		if hasHi && k >= hi {
			continue
		}
		sel = append(sel, k)
	}
	if !ascending {
		for a, b := 0, len(sel)-1; a < b; a, b = a+1, b-1 {
			sel[a], sel[b] = sel[b], sel[a]
		}
	}
	for _, k := range sel {
		v, ok := kv.m[k]
		if !ok {
			continue
		}
		if fr.i.truth(callValue(fr, fn, concreteBytes([]byte(k)), v)) {
			return true
		}
	}
	return false
}

func hashBytes(version int64) []value {
	out := make([]value, 32)
	for i := range out {
		out[i] = uint8(0)
	}
	for i := 0; i < 8; i++ {
		out[31-i] = uint8(version >> (8 * i))
	}
	out[0] = uint8(0xA5)
	return out
}

func registerTree(e *Engine) {
	e.DenyBodies("github.com/cosmos/iavl", "github.com/tendermint/tm-db", "github.com/syndtr/goleveldb")
	R := e.Register
	newMut := func(fr *frame, db value, initial int64) value {
		key := "tree:" + dbIdentity(db)
		var m *treeModel
		if x, ok := fr.i.heap[key]; ok {
			old := x.(*treeModel)
			// a new MutableTree over the same DB sees the persisted versions only
			m = &treeModel{name: old.name, versions: old.versions, working: newKV(), initial: initial, i: fr.i}
		} else {
			m = &treeModel{name: key, versions: map[int64]*kvStore{}, working: newKV(), initial: initial, i: fr.i}
			fr.i.heap[key] = m
		}
		// the MutableTree value is its real struct; field 0 is the embedded
		// *ImmutableTree (the working tree), which promoted methods go through
		mt := deref(fr.fn.Signature.Results().At(0).Type())
		var cell value = zero(mt)
		m.workCell = new(value)
		m.sync()
		cell.(structure)[0] = m.workCell
		fr.i.heap[fmt.Sprintf("mut:%p", &cell)] = m
		return &cell
	}
	R("github.com/cosmos/iavl.NewMutableTreeWithOpts", func(fr *frame, a []value) value {
		initial := int64(0)
		if op, ok := a[2].(*value); ok && op != nil {
			s := (*op).(structure)
			// iavl.Options{Sync bool, InitialVersion uint64}
			for _, f := range s {
				if u, ok := f.(uint64); ok {
					initial = int64(u)
				}
			}
		}
		return tuple{newMut(fr, a[0], initial), iface{}}
	})
	R("github.com/cosmos/iavl.NewMutableTree", func(fr *frame, a []value) value {
		return tuple{newMut(fr, a[0], 0), iface{}}
	})
	R("github.com/cosmos/iavl.NewImmutableTree", func(fr *frame, a []value) value { return newImm(newKV(), 0) })
	latest := func(m *treeModel) int64 {
		var l int64
		for v := range m.versions {
			if v > l {
				l = v
			}
		}
		return l
	}
	load := func(fr *frame, a []value) value {
		m := mutTreeOf(fr.i, a[0])
		v := asInt64(a[1])
		if v == 0 {
			v = latest(m)
		}
		if v == 0 {
			m.working, m.version = newKV(), 0
			m.sync()
			return tuple{int64(0), iface{}}
		}
		kv, ok := m.versions[v]
		if !ok {
			return tuple{int64(0), makeError(fr, "version does not exist")}
		}
		m.working, m.version = kv.clone(), v
		m.sync()
		return tuple{v, iface{}}
	}
	R("(*github.com/cosmos/iavl.MutableTree).LoadVersion", load)
	R("(*github.com/cosmos/iavl.MutableTree).LazyLoadVersion", load)
	R("(*github.com/cosmos/iavl.MutableTree).Load", func(fr *frame, a []value) value {
		return load(fr, []value{a[0], int64(0)})
	})
	R("(*github.com/cosmos/iavl.MutableTree).Version", func(fr *frame, a []value) value { return mutTreeOf(fr.i, a[0]).version })
	R("(*github.com/cosmos/iavl.MutableTree).VersionExists", func(fr *frame, a []value) value {
		_, ok := mutTreeOf(fr.i, a[0]).versions[asInt64(a[1])]
		return ok
	})
	R("(*github.com/cosmos/iavl.MutableTree).AvailableVersions", func(fr *frame, a []value) value {
		m := mutTreeOf(fr.i, a[0])
		var vs []int
		for v := range m.versions {
			vs = append(vs, int(v))
		}
		sort.Ints(vs)
		out := make([]value, len(vs))
		for i, v := range vs {
			out[i] = v
		}
		return out
	})
	R("(*github.com/cosmos/iavl.MutableTree).Set", func(fr *frame, a []value) value {
		m := mutTreeOf(fr.i, a[0])
		k := keyStringFr(fr, a[1], "MutableTree.Set")
		_, existed := m.working.m[k]
		m.working.m[k] = a[2]
		w := fr.i.writeLog()
		*w = append(*w, WriteRec{Store: m.name, Op: "set", Key: k, Val: a[2]})
		return existed
	})
	R("(*github.com/cosmos/iavl.MutableTree).Remove", func(fr *frame, a []value) value {
		m := mutTreeOf(fr.i, a[0])
		k := keyStringFr(fr, a[1], "MutableTree.Remove")
		old, existed := m.working.m[k]
		delete(m.working.m, k)
		w := fr.i.writeLog()
		*w = append(*w, WriteRec{Store: m.name, Op: "remove", Key: k})
		if !existed {
			return tuple{[]value(nil), false}
		}
		return tuple{old, true}
	})
	R("(*github.com/cosmos/iavl.MutableTree).Get", func(fr *frame, a []value) value {
		m := mutTreeOf(fr.i, a[0])
		v, ok := m.working.m[keyStringFr(fr, a[1], "MutableTree.Get")]
		if !ok {
			return tuple{int64(0), []value(nil)}
		}
		return tuple{int64(0), v}
	})
	R("(*github.com/cosmos/iavl.MutableTree).Has", func(fr *frame, a []value) value {
		_, ok := mutTreeOf(fr.i, a[0]).working.m[keyStringFr(fr, a[1], "MutableTree.Has")]
		return ok
	})
	R("(*github.com/cosmos/iavl.MutableTree).SaveVersion", func(fr *frame, a []value) value {
		m := mutTreeOf(fr.i, a[0])
		v := m.version + 1
		if m.version == 0 && m.initial > 1 {
			v = m.initial
		}
		m.versions[v] = m.working.clone()
		m.version = v
		m.sync()
		w := fr.i.writeLog()
		*w = append(*w, WriteRec{Store: m.name, Op: "saveversion", Key: fmt.Sprint(v)})
		return tuple{hashBytes(v), v, iface{}}
	})
	R("(*github.com/cosmos/iavl.MutableTree).GetImmutable", func(fr *frame, a []value) value {
		m := mutTreeOf(fr.i, a[0])
		v := asInt64(a[1])
		kv, ok := m.versions[v]
		if !ok {
			return tuple{(*value)(nil), makeError(fr, "version does not exist")}
		}
		return tuple{newImm(kv, v), iface{}}
	})
	R("(*github.com/cosmos/iavl.MutableTree).DeleteVersion", func(fr *frame, a []value) value {
		delete(mutTreeOf(fr.i, a[0]).versions, asInt64(a[1]))
		return iface{}
	})
	R("(*github.com/cosmos/iavl.MutableTree).DeleteVersionsRange", func(fr *frame, a []value) value {
		m := mutTreeOf(fr.i, a[0])
		for v := asInt64(a[1]); v < asInt64(a[2]); v++ {
			delete(m.versions, v)
		}
		return iface{}
	})
	R("(*github.com/cosmos/iavl.MutableTree).Hash", func(fr *frame, a []value) value { return hashBytes(mutTreeOf(fr.i, a[0]).version) })
	R("(*github.com/cosmos/iavl.MutableTree).WorkingHash", func(fr *frame, a []value) value {
		return hashBytes(mutTreeOf(fr.i, a[0]).version + 1)
	})

	R("(*github.com/cosmos/iavl.ImmutableTree).Get", func(fr *frame, a []value) value {
		t := immTree(a[0])
		v, ok := t.kv.m[keyStringFr(fr, a[1], "ImmutableTree.Get")]
		if !ok {
			return tuple{int64(0), []value(nil)}
		}
		return tuple{int64(0), v}
	})
	R("(*github.com/cosmos/iavl.ImmutableTree).Has", func(fr *frame, a []value) value {
		_, ok := immTree(a[0]).kv.m[keyStringFr(fr, a[1], "ImmutableTree.Has")]
		return ok
	})
	R("(*github.com/cosmos/iavl.ImmutableTree).Version", func(fr *frame, a []value) value { return immTree(a[0]).version })
	R("(*github.com/cosmos/iavl.ImmutableTree).Hash", func(fr *frame, a []value) value { return hashBytes(immTree(a[0]).version) })
	R("(*github.com/cosmos/iavl.ImmutableTree).Size", func(fr *frame, a []value) value { return int64(len(immTree(a[0]).kv.m)) })
	R("(*github.com/cosmos/iavl.ImmutableTree).IterateRange", func(fr *frame, a []value) value {
		return iterateKV(fr, immTree(a[0]).kv, a[1], a[2], fr.i.truth(a[3]), a[4])
	})
	R("(*github.com/cosmos/iavl.ImmutableTree).Iterate", func(fr *frame, a []value) value {
		return iterateKV(fr, immTree(a[0]).kv, []value(nil), []value(nil), true, a[1])
	})

	// ---- tm-db MemDB / generic DB handle
	memOf := func(v value) *memDBH {
		if it, ok := v.(iface); ok {
			v = it.v
		}
		p := derefPtr(v, "tm-db handle")
		h, ok := (*p).(memDBH)
		if !ok {
			panic(abortPath{"engine-error", fmt.Sprintf("not a KV model: %T", *p)})
		}
		return &h
	}
	newMem := func(fr *frame, name string) value {
		var cell value = memDBH{kv: newKV(), name: name}
		return &cell
	}
	R("github.com/tendermint/tm-db.NewMemDB", func(fr *frame, a []value) value {
		n, _ := fr.i.heap["memdb-count"].(int)
		fr.i.heap["memdb-count"] = n + 1
		return newMem(fr, fmt.Sprintf("memdb%d", n))
	})
	R("(*github.com/tendermint/tm-db.MemDB).Get", func(fr *frame, a []value) value {
		v, ok := memOf(a[0]).kv.m[keyStringFr(fr, a[1], "DB.Get")]
		if !ok {
			return tuple{[]value(nil), iface{}}
		}
		return tuple{v, iface{}}
	})
	R("(*github.com/tendermint/tm-db.MemDB).Has", func(fr *frame, a []value) value {
		_, ok := memOf(a[0]).kv.m[keyStringFr(fr, a[1], "DB.Has")]
		return tuple{ok, iface{}}
	})
	setf := func(fr *frame, a []value) value {
		h := memOf(a[0])
		k := keyStringFr(fr, a[1], "DB.Set")
		h.kv.m[k] = a[2]
		w := fr.i.writeLog()
		*w = append(*w, WriteRec{Store: h.name, Op: "set", Key: k, Val: a[2]})
		return iface{}
	}
	R("(*github.com/tendermint/tm-db.MemDB).Set", setf)
	R("(*github.com/tendermint/tm-db.MemDB).SetSync", setf)
	delf := func(fr *frame, a []value) value {
		h := memOf(a[0])
		k := keyStringFr(fr, a[1], "DB.Delete")
		delete(h.kv.m, k)
		w := fr.i.writeLog()
		*w = append(*w, WriteRec{Store: h.name, Op: "remove", Key: k})
		return iface{}
	}
	R("(*github.com/tendermint/tm-db.MemDB).Delete", delf)
	R("(*github.com/tendermint/tm-db.MemDB).DeleteSync", delf)
	R("(*github.com/tendermint/tm-db.MemDB).Close", func(fr *frame, a []value) value { return iface{} })
}
