package gosym

// Insertion-ordered map used for every Go map of the target program, so that
// execution (and hence decision-prefix replay) is deterministic.  Keys are
// normally concrete; a key containing a symbolic scalar switches the map to
// linear scans whose equality tests may fork the path.

import (
	"fmt"
	"go/types"
)

type omap struct {
	keyType types.Type
	builtin bool // key hashes with Go's == (basic, pointer, chan)
	keys    []value
	vals    []value
	alive   []bool
	n       int
	idx     map[interface{}][]int // builtin: key itself; else: int hash
	symKeys bool
}

func makeMap(kt types.Type, reserve int64) value {
	return &omap{keyType: kt, builtin: usesBuiltinMap(kt), idx: map[interface{}][]int{}}
}

func hasSym(v value) bool {
	switch v := v.(type) {
	case symInt, symBool, bigInt:
		return true
	case structure:
		for _, e := range v {
			if hasSym(e) {
				return true
			}
		}
	case array:
		for _, e := range v {
			if hasSym(e) {
				return true
			}
		}
	case iface:
		return hasSym(v.v)
	}
	return false
}

func (m *omap) bucketKey(k value) interface{} {
	if m.builtin {
		return k
	}
	return hash(m.keyType, m.keyType, k)
}

// find returns the index of key k, or -1.
func (m *omap) find(i *interpreter, k value) int {
	if m == nil {
		return -1
	}
	if m.symKeys || hasSym(k) {
		for j := range m.keys {
			if m.alive[j] && i.decide(eqTerm(i, m.keyType, m.keys[j], k)) {
				return j
			}
		}
		return -1
	}
	for _, j := range m.idx[m.bucketKey(k)] {
		if m.alive[j] && (m.builtin || equals(m.keyType, m.keys[j], k)) {
			return j
		}
	}
	return -1
}

func (m *omap) lookup(i *interpreter, k value) (value, bool) {
	i.raceMap(m, "mread")
	j := m.find(i, k)
	if j < 0 {
		return nil, false
	}
	return m.vals[j], true
}

func (m *omap) insert(i *interpreter, k, v value) {
	if m == nil {
		panic(runtimePanic("assignment to entry in nil map"))
	}
	i.raceMap(m, "mwrite")
	if j := m.find(i, k); j >= 0 {
		m.vals[j] = v
		return
	}
	if hasSym(k) {
		m.symKeys = true
	}
	m.keys = append(m.keys, k)
	m.vals = append(m.vals, v)
	m.alive = append(m.alive, true)
	m.n++
	if !m.symKeys {
		bk := m.bucketKey(k)
		m.idx[bk] = append(m.idx[bk], len(m.keys)-1)
	}
}

func (m *omap) delete(i *interpreter, k value) {
	if m == nil {
		return
	}
	i.raceMap(m, "mwrite")
	if j := m.find(i, k); j >= 0 {
		m.alive[j] = false
		m.vals[j] = nil
		m.n--
	}
}

func (m *omap) len() int {
	if m == nil {
		return 0
	}
	return m.n
}

// omapIter visits live entries in the order given by perm (indices into the
// entry arrays at the time the range started), then any entries appended
// during the iteration.
type omapIter struct {
	i    *interpreter // set when accesses are recorded for race prediction
	m    *omap
	perm []int
	pos  int
	next0 int
}

func (it *omapIter) next() tuple {
	if it.i != nil {
		it.i.raceMap(it.m, "mread")
	}
	m := it.m
	if m == nil {
		return tuple{false, nil, nil}
	}
	for it.pos < len(it.perm) {
		j := it.perm[it.pos]
		it.pos++
		if m.alive[j] {
			return tuple{true, m.keys[j], m.vals[j]}
		}
	}
	for it.next0 < len(m.keys) {
		j := it.next0
		it.next0++
		if m.alive[j] {
			return tuple{true, m.keys[j], m.vals[j]}
		}
	}
	return tuple{false, nil, nil}
}

func (m *omap) liveIndices() []int {
	if m == nil {
		return nil
	}
	var out []int
	for j := range m.keys {
		if m.alive[j] {
			out = append(out, j)
		}
	}
	return out
}

func (m *omap) String() string { return fmt.Sprintf("omap(%d)", m.len()) }
