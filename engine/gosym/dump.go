package gosym

import (
	"fmt"
	"strings"
)

// dumpValue renders a stored value canonically (for comparing write traces).
func dumpValue(v value) string {
	var sb strings.Builder
	dumpInto(&sb, v, 0)
	return sb.String()
}

func dumpInto(sb *strings.Builder, v value, depth int) {
	if depth > 12 {
		sb.WriteString("…")
		return
	}
	switch v := v.(type) {
	case nil:
		sb.WriteString("nil")
	case []value:
		if b, ok := bytesOfValue(v); ok {
			fmt.Fprintf(sb, "x%x", b)
			return
		}
		sb.WriteString("[")
		for i, e := range v {
			if i > 0 {
				sb.WriteString(" ")
			}
			dumpInto(sb, e, depth+1)
		}
		sb.WriteString("]")
	case rlpBox:
		sb.WriteString("box(")
		dumpInto(sb, v.V, depth+1)
		sb.WriteString(")")
	case bigBytes:
		sb.WriteString("bytes(" + v.T.String() + ")")
	case bigInt:
		sb.WriteString(v.T.String())
	case symInt:
		sb.WriteString(v.T.String())
	case symBool:
		sb.WriteString(v.T.String())
	case numStr:
		sb.WriteString("str(" + v.T.String() + ")")
	case structure:
		sb.WriteString("{")
		for i, e := range v {
			if i > 0 {
				sb.WriteString(" ")
			}
			dumpInto(sb, e, depth+1)
		}
		sb.WriteString("}")
	case array:
		if b, ok := bytesOfValue([]value(v)); ok {
			fmt.Fprintf(sb, "x%x", b)
			return
		}
		sb.WriteString("<")
		for i, e := range v {
			if i > 0 {
				sb.WriteString(" ")
			}
			dumpInto(sb, e, depth+1)
		}
		sb.WriteString(">")
	case *value:
		if v == nil {
			sb.WriteString("nilptr")
			return
		}
		sb.WriteString("&")
		dumpInto(sb, *v, depth+1)
	case iface:
		if v.t == nil {
			sb.WriteString("nilif")
			return
		}
		dumpInto(sb, v.v, depth+1)
	default:
		fmt.Fprintf(sb, "%v", v)
	}
}
