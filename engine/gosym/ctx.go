package gosym

// Path context: the decision trace, the path condition and the bookkeeping of
// assumptions, assertions and notes for one execution of a harness.

import (
	"fmt"
	"os"
	"sort"
	"strings"
	"time"
)

func short(s string, n int) string {
	if len(s) > n {
		return s[:n] + "…"
	}
	return s
}

// abortPath ends the current path (it is never seen by target recover()).
type abortPath struct {
	kind string // "unsupported", "bound-exceeded", "assume-false", "engine-error"
	msg  string
}

func (a abortPath) String() string { return a.kind + ": " + a.msg }

type traceKind uint8

const (
	tkBranch traceKind = iota
	tkAssume
	tkAssert
)

type traceEntry struct {
	Kind   traceKind
	Val    bool // branch: direction taken; assert: held; assume: feasible
	Forced bool // branch: the other side was infeasible
	Res    Result
}

type AssertRecord struct {
	Label  string
	Status string // "discharged", "violated", "inconclusive", "concrete-ok", "concrete-fail"
	Model  map[string]string
	Pos    string
}

type Note struct {
	Label string
	Terms []*Term
	Strs  []string
}

type pathCtx struct {
	eng    *Engine
	sess   *Session
	prefix []traceEntry
	trace  []traceEntry
	pcSize int

	forks [][]traceEntry // alternative prefixes discovered on this path

	asserts []AssertRecord
	notes   []Note
	vars    []*Term
	varSeen map[string]int
	nFresh  map[string]int

	symDecisions int
	uncertain    bool
	assumeCuts   int
	opts         *HarnessOpts

	funcsEntered map[string]int
	stubs        map[string]int
	ufApps       []ufApp
	siteOf       func() string
	forkSites    []string
	orderIdx     []int    // indices into trace that are map-iteration-order choices
	orderSites   []string // "site#permutation" in execution order
	orderDeviated bool
}

func (c *pathCtx) replaying() bool { return len(c.trace) < len(c.prefix) }

func (c *pathCtx) realBody(name string) bool {
	if c.opts == nil {
		return false
	}
	if i := strings.LastIndex(name, "."); i >= 0 && strings.HasPrefix(name[i+1:], "verif") {
		return false // harness primitives are always intercepted
	}
	for _, p := range c.opts.RealBodies {
		if strings.HasPrefix(name, p) {
			return true
		}
	}
	return false
}

// NewVar declares a named symbolic input (stable across re-executions).
func (c *pathCtx) NewVar(name string, s Sort) *Term {
	n := c.varSeen[name]
	c.varSeen[name] = n + 1
	if n > 0 {
		name = fmt.Sprintf("%s#%d", name, n)
	}
	v := Var(name, s)
	c.vars = append(c.vars, v)
	return v
}

// Fresh declares an auxiliary variable (quotients, UF results ...).
func (c *pathCtx) Fresh(prefix string, s Sort) *Term {
	n := c.nFresh[prefix]
	c.nFresh[prefix] = n + 1
	v := Var(fmt.Sprintf("%s!%d", prefix, n), s)
	c.vars = append(c.vars, v)
	return v
}

// Constrain adds a definitional side constraint (always satisfiable by
// construction, e.g. the defining equations of a fresh quotient).
func (c *pathCtx) Constrain(t *Term) {
	if t.IsConst() && t.B {
		return
	}
	c.sess.Assert(t)
	c.pcSize++
}

func (c *pathCtx) feasMs() int {
	if c.opts != nil && c.opts.FeasMs > 0 {
		return c.opts.FeasMs
	}
	return 3000
}

func (c *pathCtx) assertMs() int {
	if c.opts != nil && c.opts.AssertMs > 0 {
		return c.opts.AssertMs
	}
	return 30000
}

// branch decides a symbolic condition, forking the path when both sides are
// feasible.
func (c *pathCtx) branch(cond *Term) bool {
	if c.replaying() {
		e := c.prefix[len(c.trace)]
		if e.Kind != tkBranch {
			panic(abortPath{"engine-error", "prefix replay diverged: expected branch"})
		}
		c.trace = append(c.trace, e)
		if !e.Forced {
			if e.Val {
				c.sess.Assert(cond)
			} else {
				c.sess.Assert(Not(cond))
			}
			c.pcSize++
		}
		return e.Val
	}
	c.symDecisions++
	if c.opts != nil && c.opts.MaxDecisions > 0 && c.symDecisions > c.opts.MaxDecisions {
		panic(abortPath{"bound-exceeded", fmt.Sprintf("more than %d symbolic decisions on one path", c.opts.MaxDecisions)})
	}
	t0 := time.Now()
	rT := c.feas(cond)
	if rT == Unsat {
		c.trace = append(c.trace, traceEntry{Kind: tkBranch, Val: false, Forced: true})
		return false
	}
	rF := c.feas(Not(cond))
	if d := time.Since(t0); d > 2*time.Second && c.eng.Progress {
		fmt.Fprintf(os.Stderr, "slow branch (%.1fs, %v/%v) after %s: %s\n", d.Seconds(), rT, rF, traceString(c.trace), short(cond.String(), 300))
	}
	if rF == Unsat {
		c.trace = append(c.trace, traceEntry{Kind: tkBranch, Val: true, Forced: true})
		return true
	}
	if rT == Unknown || rF == Unknown {
		c.uncertain = true
	}
	if c.siteOf != nil {
		c.forkSites = append(c.forkSites, c.siteOf())
	}
	// both sides (possibly) feasible: fork
	alt := make([]traceEntry, len(c.trace)+1)
	copy(alt, c.trace)
	alt[len(c.trace)] = traceEntry{Kind: tkBranch, Val: false}
	c.forks = append(c.forks, alt)
	c.trace = append(c.trace, traceEntry{Kind: tkBranch, Val: true})
	c.sess.Assert(cond)
	c.pcSize++
	return true
}

// feas is a feasibility query: only the back ends with a per-query time cap
// are consulted, so an undecidable non-linear condition costs seconds, not a
// full portfolio time-out (unknown = both sides are explored).
func (c *pathCtx) feas(cond *Term) Result {
	c.sess.FeasOnly = true
	defer func() { c.sess.FeasOnly = false }()
	return c.sess.Check(cond, c.feasMs())
}

func (c *pathCtx) assume(cond *Term) {
	if cond.IsConst() {
		if !cond.B {
			c.assumeCuts++
			panic(abortPath{"assume-false", "concrete"})
		}
		return
	}
	if c.replaying() {
		e := c.prefix[len(c.trace)]
		if e.Kind != tkAssume {
			panic(abortPath{"engine-error", "prefix replay diverged: expected assume"})
		}
		c.trace = append(c.trace, e)
		c.sess.Assert(cond)
		c.pcSize++
		return
	}
	r := c.feas(cond)
	if r == Unsat {
		c.assumeCuts++
		panic(abortPath{"assume-false", cond.String()})
	}
	if r == Unknown {
		c.uncertain = true
	}
	c.trace = append(c.trace, traceEntry{Kind: tkAssume, Val: true, Res: r})
	c.sess.Assert(cond)
	c.pcSize++
}

func (c *pathCtx) modelOf(extra *Term) map[string]string {
	terms := append([]*Term{}, c.vars...)
	for _, n := range c.notes {
		terms = append(terms, n.Terms...)
	}
	for _, u := range c.ufApps {
		terms = append(terms, u.Args...)
		terms = append(terms, u.Ret)
	}
	vals, ok := c.sess.Model(extra, terms, c.assertMs())
	if !ok {
		return nil
	}
	m := map[string]string{}
	for i, v := range c.vars {
		m[v.Name] = vals[i]
	}
	k := len(c.vars)
	for _, n := range c.notes {
		var ss []string
		for range n.Terms {
			ss = append(ss, vals[k])
			k++
		}
		m["note:"+n.Label] = strings.Join(ss, ",")
	}
	// uninterpreted-function applications: "uf:NAME|a1,a2,..." -> result,
	// consumed by the native stubs during replay
	for _, u := range c.ufApps {
		var as []string
		for range u.Args {
			as = append(as, normNum(vals[k]))
			k++
		}
		m["uf:"+u.Name+"|"+strings.Join(as, ",")] = normNum(vals[k])
		k++
	}
	return m
}

type ufApp struct {
	Name string
	Args []*Term
	Ret  *Term
}

// RecordUF remembers an uninterpreted-function application for replay.
func (c *pathCtx) RecordUF(name string, ret *Term, args ...*Term) {
	c.ufApps = append(c.ufApps, ufApp{name, args, ret})
}

func normNum(s string) string {
	s = strings.TrimSpace(s)
	if strings.HasPrefix(s, "(- ") {
		return "-" + strings.TrimSpace(strings.TrimSuffix(strings.TrimPrefix(s, "(- "), ")"))
	}
	return s
}

func (c *pathCtx) assert(label string, cond *Term, pos string) {
	if cond.IsConst() {
		if cond.B {
			if !c.replaying() {
				c.asserts = append(c.asserts, AssertRecord{Label: label, Status: "concrete-ok", Pos: pos})
			}
			return
		}
		if !c.replaying() {
			// concretely false: a violation if the path is feasible at all (after a
			// feasibility query answered unknown the path may be infeasible)
			rec := AssertRecord{Label: label, Pos: pos}
			switch c.sess.Check(TrueT, c.assertMs()) {
			case Unsat:
				rec.Status = "discharged" // vacuous: no input reaches this point
			case Sat:
				rec.Status = "violated"
				rec.Model = c.modelOf(nil)
			default:
				rec.Status = "inconclusive"
			}
			c.asserts = append(c.asserts, rec)
		}
		return
	}
	if c.replaying() {
		e := c.prefix[len(c.trace)]
		if e.Kind != tkAssert {
			panic(abortPath{"engine-error", "prefix replay diverged: expected assert"})
		}
		c.trace = append(c.trace, e)
		if !e.Forced {
			c.sess.Assert(cond)
			c.pcSize++
		}
		return
	}
	neg := Not(cond)
	r := c.sess.CheckCross(neg, c.assertMs(), c.eng.CrossMs)
	rec := AssertRecord{Label: label, Pos: pos}
	switch r {
	case Unsat:
		rec.Status = "discharged"
	case Sat:
		rec.Status = "violated"
		rec.Model = c.modelOf(neg)
	default:
		rec.Status = "inconclusive"
	}
	c.asserts = append(c.asserts, rec)
	c.trace = append(c.trace, traceEntry{Kind: tkAssert, Val: r == Unsat, Res: r})
	// continue under the assumption that the assertion holds so that later
	// assertions are judged independently
	if r != Unsat {
		if c.feas(cond) == Unsat {
			// the assertion fails for every input of this path: it cannot be
			// assumed; later assertions are judged under the unchanged path
			// condition so that other properties' labels are still evaluated
			c.trace[len(c.trace)-1].Forced = true
			return
		}
	}
	c.sess.Assert(cond)
	c.pcSize++
}

func (c *pathCtx) note(label string, terms []*Term, strs []string) {
	c.notes = append(c.notes, Note{Label: label, Terms: terms, Strs: strs})
}

func traceString(tr []traceEntry) string {
	var sb strings.Builder
	for _, e := range tr {
		switch e.Kind {
		case tkBranch:
			switch {
			case e.Forced && e.Val:
				sb.WriteByte('T')
			case e.Forced:
				sb.WriteByte('F')
			case e.Val:
				sb.WriteByte('t')
			default:
				sb.WriteByte('f')
			}
		case tkAssume:
			sb.WriteByte('a')
		case tkAssert:
			if e.Val {
				sb.WriteByte('!')
			} else {
				sb.WriteByte('?')
			}
		}
	}
	return sb.String()
}

func sortedKeys(m map[string]int) []string {
	ks := make([]string, 0, len(m))
	for k := range m {
		ks = append(ks, k)
	}
	sort.Strings(ks)
	return ks
}
