package gosym

// Solver portfolio: long-lived z3 / z3-new / cvc5 processes driven over pipes.

import (
	"bufio"
	"fmt"
	"io"
	"os"
	"os/exec"
	"strings"
	"sync"
	"time"
)

type Result int

const (
	Unknown Result = iota
	Sat
	Unsat
)

func (r Result) String() string {
	switch r {
	case Sat:
		return "sat"
	case Unsat:
		return "unsat"
	}
	return "unknown"
}

type BackendSpec struct {
	Name string
	Argv []string
	FP   bool // supports arbitrary FloatingPoint sorts
}

var (
	Z3Old = BackendSpec{Name: "z3-4.8.12", Argv: []string{"/usr/bin/z3", "-in"}, FP: true}
	Z3New = BackendSpec{Name: "z3-5.1.0", Argv: []string{"z3-new", "-in"}, FP: true}
	CVC5  = BackendSpec{Name: "cvc5-1.0", Argv: []string{"cvc5", "--incremental", "--lang=smt2", "--produce-models", "--tlimit-per=20000", "--nl-ext-tplanes"}, FP: false}
)

type backend struct {
	spec   BackendSpec
	cmd    *exec.Cmd
	in     io.WriteCloser
	out    *bufio.Reader
	cursor int
	lines  chan string
	alive  bool
	SolveS float64
	Calls  int
}

func (b *backend) start() error {
	cmd := exec.Command(b.spec.Argv[0], b.spec.Argv[1:]...)
	in, err := cmd.StdinPipe()
	if err != nil {
		return err
	}
	out, err := cmd.StdoutPipe()
	if err != nil {
		return err
	}
	cmd.Stderr = nil
	if err := cmd.Start(); err != nil {
		return err
	}
	b.cmd, b.in = cmd, in
	b.out = bufio.NewReaderSize(out, 1<<16)
	b.lines = make(chan string, 256)
	b.alive = true
	b.cursor = 0
	go func(r *bufio.Reader, ch chan string) {
		for {
			l, err := r.ReadString('\n')
			if l != "" {
				ch <- strings.TrimRight(l, "\r\n")
			}
			if err != nil {
				close(ch)
				return
			}
		}
	}(b.out, b.lines)
	return nil
}

func (b *backend) kill() {
	if b.cmd != nil && b.cmd.Process != nil {
		b.in.Close()
		b.cmd.Process.Kill()
		go b.cmd.Wait()
	}
	b.alive = false
}

var doneCounter int
var doneMu sync.Mutex

// roundTrip sends text and reads lines up to the echo marker.
func (b *backend) roundTrip(text string, wall time.Duration) ([]string, bool) {
	doneMu.Lock()
	doneCounter++
	marker := fmt.Sprintf("@@done%d", doneCounter)
	doneMu.Unlock()
	if _, err := io.WriteString(b.in, text+"(echo \""+marker+"\")\n"); err != nil {
		b.kill()
		return nil, false
	}
	var got []string
	timer := time.NewTimer(wall)
	defer timer.Stop()
	for {
		select {
		case l, ok := <-b.lines:
			if !ok {
				b.kill()
				return got, false
			}
			if strings.Contains(l, marker) {
				return got, true
			}
			got = append(got, l)
		case <-timer.C:
			b.kill()
			return got, false
		}
	}
}

// Session is one incremental solver context mirrored lazily to several
// back ends.  Not safe for concurrent use: one per worker.
type Session struct {
	backends []*backend
	log      []string
	pr       *printer
	hasFP    bool
	Trace    io.Writer

	Queries   int
	NSat      int
	NUnsat    int
	NUnknown  int
	NErrors   int
	Disagree  []string
	preferred int
	lastAnswered *backend
	FeasOnly     bool // set around feasibility queries (see pathCtx.feas)
}

func NewSession(specs ...BackendSpec) *Session {
	s := &Session{}
	for _, sp := range specs {
		s.backends = append(s.backends, &backend{spec: sp})
	}
	s.Reset()
	return s
}

func (s *Session) Close() {
	for _, b := range s.backends {
		if b.alive {
			b.kill()
		}
	}
}

func (s *Session) Reset() {
	s.log = s.log[:0]
	s.pr = newPrinter()
	s.hasFP = false
	for _, b := range s.backends {
		if b.alive {
			// (reset) drops assertions, declarations and options.
			if _, ok := b.roundTrip("(reset)\n", 20*time.Second); !ok {
				b.kill()
			}
			b.cursor = 0
		}
	}
}

// render turns t into declaration lines (appended to the log) and a reference.
func (s *Session) render(t *Term) string {
	var sb strings.Builder
	s.pr.out = &sb
	ref := s.pr.ref(t)
	if sb.Len() > 0 {
		for _, l := range strings.Split(strings.TrimRight(sb.String(), "\n"), "\n") {
			if strings.Contains(l, "FloatingPoint") || strings.Contains(l, "fp.") {
				s.hasFP = true
			}
			s.log = append(s.log, l)
		}
	}
	return ref
}

func (s *Session) Assert(t *Term) {
	if t.IsConst() && t.B {
		return
	}
	ref := s.render(t)
	s.log = append(s.log, "(assert "+ref+")")
}

func (s *Session) sync(b *backend) bool {
	if !b.alive {
		if err := b.start(); err != nil {
			fmt.Fprintln(os.Stderr, "solver start failed:", b.spec.Name, err)
			return false
		}
		pre := "(set-option :produce-models true)\n"
		if _, ok := b.roundTrip(pre, 20*time.Second); !ok {
			return false
		}
	}
	if b.cursor < len(s.log) {
		var sb strings.Builder
		for _, l := range s.log[b.cursor:] {
			sb.WriteString(l)
			sb.WriteByte('\n')
		}
		if s.Trace != nil {
			fmt.Fprintf(s.Trace, "; -> %s\n%s", b.spec.Name, sb.String())
		}
		lines, ok := b.roundTrip(sb.String(), 60*time.Second)
		if !ok {
			return false
		}
		for _, l := range lines {
			if strings.Contains(l, "(error") {
				s.NErrors++
				fmt.Fprintf(os.Stderr, "solver %s error while syncing: %s\n", b.spec.Name, l)
				b.kill()
				return false
			}
		}
		b.cursor = len(s.log)
	}
	return true
}

func (s *Session) checkOn(b *backend, ref string, timeoutMs int) Result {
	if s.hasFP && !b.spec.FP {
		return Unknown
	}
	if !s.sync(b) {
		return Unknown
	}
	var q strings.Builder
	q.WriteString("(push 1)\n")
	if ref != "" {
		q.WriteString("(assert " + ref + ")\n")
	}
	if strings.HasPrefix(b.spec.Name, "z3") {
		fmt.Fprintf(&q, "(set-option :timeout %d)\n", timeoutMs)
	}
	q.WriteString("(check-sat)\n(pop 1)\n")
	if s.Trace != nil {
		fmt.Fprintf(s.Trace, "; ? %s\n%s", b.spec.Name, q.String())
	}
	t0 := time.Now()
	lines, ok := b.roundTrip(q.String(), time.Duration(timeoutMs)*time.Millisecond+5*time.Second)
	b.SolveS += time.Since(t0).Seconds()
	b.Calls++
	if d := os.Getenv("VERIF_DUMP_SMT"); d != "" {
		doneMu.Lock()
		doneCounter++
		n := doneCounter
		doneMu.Unlock()
		os.WriteFile(fmt.Sprintf("%s/q%05d-%s-%.2fs.smt2", d, n, b.spec.Name, time.Since(t0).Seconds()), []byte(strings.Join(s.log, "\n")+"\n"+q.String()+"; answer: "+strings.Join(lines, " ")+"\n"), 0o644)
	}
	if !ok {
		return Unknown
	}
	res := Unknown
	for _, l := range lines {
		switch {
		case strings.Contains(l, "(error"):
			s.NErrors++
			fmt.Fprintf(os.Stderr, "solver %s error: %s\n", b.spec.Name, l)
			return Unknown
		case l == "sat":
			res = Sat
		case l == "unsat":
			res = Unsat
		}
	}
	return res
}

// Check decides satisfiability of (asserted ∧ extra); extra may be nil.
// Back ends are tried in order until one gives a definite answer.
func (s *Session) Check(extra *Term, timeoutMs int) Result {
	if extra != nil && extra.IsConst() {
		if !extra.B {
			return Unsat
		}
		extra = nil
	}
	ref := ""
	if extra != nil {
		ref = s.render(extra)
	}
	s.Queries++
	n := len(s.backends)
	for k := 0; k < n; k++ {
		b := s.backends[(s.preferred+k)%n]
		if s.FeasOnly && !strings.HasPrefix(b.spec.Name, "z3") {
			continue // feasibility queries: only back ends with a per-query cap
		}
		tm := timeoutMs
		if s.FeasOnly && k > 0 {
			tm = timeoutMs / 2
		}
		r := s.checkOn(b, ref, tm)
		if r != Unknown {
			s.lastAnswered = b
			if r == Sat {
				s.NSat++
			} else {
				s.NUnsat++
			}
			return r
		}
	}
	s.NUnknown++
	return Unknown
}

// CheckCross is Check plus a second opinion: every other back end is asked
// with a short cap; a definite disagreement is recorded in s.Disagree.
func (s *Session) CheckCross(extra *Term, timeoutMs, crossMs int) Result {
	r := s.Check(extra, timeoutMs)
	if r == Unknown || crossMs <= 0 {
		return r
	}
	ref := ""
	if extra != nil && !extra.IsConst() {
		ref = s.render(extra)
	}
	answered := 0
	for _, b := range s.backends {
		if b == s.lastAnswered || !strings.HasPrefix(b.spec.Name, "z3") {
			continue
		}
		r2 := s.checkOn(b, ref, crossMs)
		if r2 != Unknown {
			answered++
			if r2 != r {
				s.Disagree = append(s.Disagree, fmt.Sprintf("%s says %s, first answer was %s", b.spec.Name, r2, r))
			}
		}
	}
	return r
}

// Model asks for a model of (asserted ∧ extra) and returns values for vars.
func (s *Session) Model(extra *Term, vars []*Term, timeoutMs int) ([]string, bool) {
	ref := ""
	if extra != nil && !extra.IsConst() {
		ref = s.render(extra)
	}
	var names []string
	for _, v := range vars {
		names = append(names, s.render(v))
	}
	for _, b := range s.backends {
		if s.hasFP && !b.spec.FP {
			continue
		}
		if !s.sync(b) {
			continue
		}
		var q strings.Builder
		q.WriteString("(push 1)\n")
		if ref != "" {
			q.WriteString("(assert " + ref + ")\n")
		}
		if strings.HasPrefix(b.spec.Name, "z3") {
			fmt.Fprintf(&q, "(set-option :timeout %d)\n", timeoutMs)
		}
		q.WriteString("(check-sat)\n")
		t0 := time.Now()
		lines, ok := b.roundTrip(q.String(), time.Duration(timeoutMs)*time.Millisecond+5*time.Second)
		b.SolveS += time.Since(t0).Seconds()
		if !ok {
			continue
		}
		sat := false
		for _, l := range lines {
			if l == "sat" {
				sat = true
			}
		}
		if !sat {
			b.roundTrip("(pop 1)\n", 10*time.Second)
			continue
		}
		m := make([]string, len(vars))
		if len(names) > 0 {
			lines, ok = b.roundTrip("(get-value ("+strings.Join(names, " ")+"))\n", 30*time.Second)
			if !ok {
				continue
			}
			sx := parseSexprs(strings.Join(lines, "\n"))
			if len(sx) == 1 {
				for i, pair := range sx[0].kids {
					if len(pair.kids) == 2 && i < len(vars) {
						m[i] = pair.kids[1].String()
					}
				}
			}
		}
		b.roundTrip("(pop 1)\n", 10*time.Second)
		return m, true
	}
	return nil, false
}

func (s *Session) SolverTimes() map[string]float64 {
	m := map[string]float64{}
	for _, b := range s.backends {
		m[b.spec.Name] += b.SolveS
	}
	return m
}

// ---------------------------------------------------------------- s-exprs

type sexpr struct {
	atom string
	kids []*sexpr
	list bool
}

func (s *sexpr) String() string {
	if !s.list {
		return s.atom
	}
	parts := make([]string, len(s.kids))
	for i, k := range s.kids {
		parts[i] = k.String()
	}
	return "(" + strings.Join(parts, " ") + ")"
}

func parseSexprs(src string) []*sexpr {
	var stack []*sexpr
	top := &sexpr{list: true}
	cur := top
	i := 0
	for i < len(src) {
		c := src[i]
		switch {
		case c == '(':
			n := &sexpr{list: true}
			cur.kids = append(cur.kids, n)
			stack = append(stack, cur)
			cur = n
			i++
		case c == ')':
			if len(stack) > 0 {
				cur = stack[len(stack)-1]
				stack = stack[:len(stack)-1]
			}
			i++
		case c == ' ' || c == '\n' || c == '\t' || c == '\r':
			i++
		case c == '|':
			j := i + 1
			for j < len(src) && src[j] != '|' {
				j++
			}
			cur.kids = append(cur.kids, &sexpr{atom: src[i : j+1]})
			i = j + 1
		case c == '"':
			j := i + 1
			for j < len(src) && src[j] != '"' {
				j++
			}
			cur.kids = append(cur.kids, &sexpr{atom: src[i : j+1]})
			i = j + 1
		default:
			j := i
			for j < len(src) && !strings.ContainsRune("() \n\t\r", rune(src[j])) {
				j++
			}
			cur.kids = append(cur.kids, &sexpr{atom: src[i:j]})
			i = j
		}
	}
	return top.kids
}

// ParseIntValue parses an SMT integer value such as "5" or "(- 5)".
func ParseIntValue(s string) (string, bool) {
	s = strings.TrimSpace(s)
	if strings.HasPrefix(s, "(- ") && strings.HasSuffix(s, ")") {
		inner := strings.TrimSpace(s[3 : len(s)-1])
		return "-" + inner, true
	}
	if s == "" {
		return "", false
	}
	for _, r := range s {
		if r < '0' || r > '9' {
			return s, false
		}
	}
	return s, true
}
