package gosym

// Cryptography boundary.  Signature recovery is abstracted: a harness
// registers "signer id -> address" and builds signatures whose R is the signer
// id; natively the same harness signs with the fixed private key of that id,
// so both worlds agree on who signed.  Hashes are opaque concrete values or
// uninterpreted functions of their inputs.

import (
	"crypto/sha256"
	"fmt"
	"go/types"

	"golang.org/x/crypto/sha3"
)

func addrArray(b []byte) array {
	a := make(array, len(b))
	for i, x := range b {
		a[i] = x
	}
	return a
}

func registerCrypto(e *Engine) {
	tx := e.ModulePath + "/coreV2/transaction"
	// verifRegisterSigner(id int, addr types.Address)
	e.Register("verif:verifRegisterSigner", func(fr *frame, a []value) value {
		m, _ := fr.i.heap["signers"].(map[int64]value)
		if m == nil {
			m = map[int64]value{}
			fr.i.heap["signers"] = m
		}
		m[asInt64(a[0])] = a[1]
		return nil
	})
	recover := func(fr *frame, a []value) value {
		// (sighash, R, S, Vb) -> (Address, error); the signer is identified by R
		zeroAddr := zero(fr.fn.Signature.Results().At(0).Type())
		r := bigOf(a[1])
		if !r.IsConst() {
			panic(abortPath{"unsupported", "RecoverPlain with a symbolic R (harnesses choose signers concretely)"})
		}
		m, _ := fr.i.heap["signers"].(map[int64]value)
		if addr, ok := m[r.Val.Int64()]; ok && r.Val.IsInt64() {
			return tuple{addr, iface{}}
		}
		return tuple{zeroAddr, makeError(fr, "invalid transaction v, r, s values")}
	}
	e.Register(tx+".RecoverPlain", recover)
	e.Register(e.ModulePath+"/coreV2/check.recoverPlain", recover)
	// crypto.Ecrecover(hash, sig) -> (pub, err): curve arithmetic is outside the
	// encoding; the result is an arbitrary outcome (some fixed uncompressed
	// public key, or an error).  Used by harnesses that run the real bodies of
	// RecoverPlain / recoverPlain to check the gates in front of the recovery.
	e.Register(e.ModulePath+"/crypto.Ecrecover", func(fr *frame, a []value) value {
		if pub, isAbstract := abstractRecover(a[0], a[1]); isAbstract {
			return tuple{concreteBytes(pub), iface{}}
		}
		ok := fr.i.ctx.NewVar("ecrecover.ok", BoolSort)
		if fr.i.decide(ok) {
			pub := make([]byte, 65)
			pub[0] = 4
			for k := 1; k < 65; k++ {
				pub[k] = byte(k)
			}
			return tuple{concreteBytes(pub), iface{}}
		}
		return tuple{[]value(nil), makeError(fr, "recovery failed")}
	})
	// transaction hash: an opaque constant (nothing but signature recovery,
	// which is abstracted, depends on it in the transaction harnesses)
	e.Register(tx+".rlpHash", func(fr *frame, a []value) value {
		// an injective-by-construction stand-in: the digest of the canonical
		// rendering of the RLP-visible content of the argument
		it, _ := a[0].(iface)
		if it.t == nil {
			h := make(array, 32)
			for i := range h {
				h[i] = uint8(0x11)
			}
			return h
		}
		d := sha256.Sum256([]byte(dumpValue(rlpSnapshot(it.t, it.v))))
		return addrArray(d[:])
	})
	e.Register(e.ModulePath+"/coreV2/check.rlpHash", func(fr *frame, a []value) value {
		it, _ := a[0].(iface)
		d := sha256.Sum256([]byte("check:" + dumpValue(rlpSnapshot(it.t, it.v))))
		return addrArray(d[:])
	})
	_ = fmt.Sprint
	_ = types.Typ

	// ---- hashes over concrete bytes are computed natively
	sum256 := func(fr *frame, a []value) value {
		h := sha256.Sum256(byteSlice(a[0], "sha256"))
		return addrArray(h[:])
	}
	e.Register("crypto/sha256.Sum256", sum256)
	e.Register("github.com/tendermint/tendermint/crypto/tmhash.Sum", func(fr *frame, a []value) value {
		h := sha256.Sum256(byteSlice(a[0], "tmhash.Sum"))
		return concreteBytes(h[:])
	})
	e.Register("github.com/tendermint/tendermint/crypto/tmhash.SumTruncated", func(fr *frame, a []value) value {
		h := sha256.Sum256(byteSlice(a[0], "tmhash.SumTruncated"))
		return concreteBytes(h[:20])
	})
	e.Register(e.ModulePath+"/crypto.Keccak256", func(fr *frame, a []value) value {
		d := sha3.NewLegacyKeccak256()
		for _, part := range a[0].([]value) {
			if b, ok := bytesOfValue(part); ok {
				d.Write(b)
				continue
			}
			// boxed (RLP field box) or symbolic bytes: an injective-by-construction
			// stand-in, the digest of the canonical rendering
			h := sha256.Sum256([]byte("keccak:" + dumpValue(part)))
			d.Write(h[:])
		}
		return concreteBytes(d.Sum(nil))
	})

	// ---- bancor formulas as uninterpreted functions under the contract that
	// the C12 harnesses establish for formula.go (modulo math.Pow):
	// result >= 0; zero amount -> 0; SaleReturn <= reserve when amount <= supply;
	// SaleReturn(s, r, c, s) = r.
	formula := func(name string) intrinsic {
		return func(fr *frame, a []value) value {
			supply, reserve, amount := bigOf(a[0]), bigOf(a[1]), bigOf(a[3])
			crr, _ := intTerm(a[2])
			if amount.IsConst() && amount.Val.Sign() == 0 {
				return bigCell(IntConst64(0))
			}
			c := fr.i.ctx
			r := App("formula."+name, IntSort, supply, reserve, crr, amount)
			c.RecordUF("formula."+name, r, supply, reserve, crr, amount)
			c.Constrain(Ge(r, IntConst64(0)))
			c.Constrain(Implies(Eq(amount, IntConst64(0)), Eq(r, IntConst64(0))))
			if name == "CalculateSaleReturn" {
				c.Constrain(Implies(Le(amount, supply), Le(r, reserve)))
				c.Constrain(Implies(Eq(amount, supply), Eq(r, reserve)))
			}
			return bigCell(r)
		}
	}
	for _, n := range []string{"CalculatePurchaseReturn", "CalculatePurchaseAmount", "CalculateSaleReturn", "CalculateSaleAmount"} {
		e.Register(e.ModulePath+"/formula."+n, formula(n))
	}
}
