package gosym

// Engine: program loading, harness exploration (work list of decision
// prefixes served by parallel workers) and result aggregation.

import (
	"fmt"
	"go/token"
	"go/types"
	"os"
	"sort"
	"strings"
	"sync"
	"time"

	"golang.org/x/tools/go/packages"
	"golang.org/x/tools/go/ssa"
	"golang.org/x/tools/go/ssa/ssautil"
)

type intrinsic func(fr *frame, args []value) value

type HarnessOpts struct {
	MaxPaths     int
	MaxDecisions int
	FeasMs       int
	AssertMs     int
	Backends     []BackendSpec // order of preference
	MapOrders    bool          // C08 mode: explore iteration orders of maps
	RealBodies   []string      // function-name prefixes whose intrinsics are bypassed (real body runs)
	FloatMode    string        // "real" (default) or "fp": model of math/big.Float
	Config       map[string]int64
}

type Engine struct {
	Prog       *ssa.Program
	Pkgs       []*packages.Package
	SSAPkgs    map[string]*ssa.Package
	ModulePath string
	MaxSteps   int64
	CrossMs    int
	Workers    int
	Verbose    bool
	SkipGo     bool
	SyncGo     []string // function-name prefixes whose go statements run to completion at the spawn point
	TraceSMT   bool
	Progress   bool

	intrinsics map[string]intrinsic
	prefixIntr []prefixIntrinsic
	initAllow  map[string]bool
	bodyDeny   []string
	mu         sync.Mutex
}

type prefixIntrinsic struct {
	prefix string
	f      intrinsic
}

func NewEngine(modulePath string) *Engine {
	e := &Engine{
		ModulePath: modulePath,
		MaxSteps:   50_000_000,
		CrossMs:    1500,
		Workers:    16,
		intrinsics: map[string]intrinsic{},
		initAllow:  map[string]bool{},
	}
	registerCore(e)
	registerBig(e)
	registerStd(e)
	registerTree(e)
	registerRLP(e)
	registerCrypto(e)
	registerKeccak(e)
	registerSnapshot(e)
	registerRace(e)
	return e
}

func (e *Engine) Register(name string, f intrinsic)       { e.intrinsics[name] = f }
func (e *Engine) RegisterPrefix(prefix string, f intrinsic) { e.prefixIntr = append(e.prefixIntr, prefixIntrinsic{prefix, f}) }

func (e *Engine) lookupIntrinsic(fn *ssa.Function, name string) intrinsic {
	if in, ok := e.intrinsics[name]; ok {
		return in
	}
	// harness primitives are matched by bare function name in any package
	if fn.Pkg != nil && fn.Signature.Recv() == nil && strings.HasPrefix(fn.Name(), "verif") {
		if in, ok := e.intrinsics["verif:"+fn.Name()]; ok {
			return in
		}
	}
	for _, p := range e.prefixIntr {
		if strings.HasPrefix(name, p.prefix) {
			return p.f
		}
	}
	return nil
}

var stdInitAllow = map[string]bool{
	"errors": false, "io": true, "bytes": true, "strings": true, "strconv": true, "sort": true,
	"unicode/utf8": true, "encoding/binary": true, "encoding/hex": true, "math": true, "math/bits": true,
	"time": false, "context": true, "slices": true, "cmp": true, "container/list": true, "container/heap": true,
	"hash/crc32": false,
}

func (e *Engine) initAllowed(path string) bool {
	if v, ok := e.initAllow[path]; ok {
		return v
	}
	if strings.HasPrefix(path, e.ModulePath) {
		return true
	}
	return stdInitAllow[path]
}

// allowBody says whether the SSA body of fn may be interpreted.  Packages
// that are modelled by intrinsics must never be entered by accident: an
// un-intercepted function of such a package is reported as unsupported.
func (e *Engine) allowBody(fn *ssa.Function) bool {
	p := fnPackage(fn)
	if p == nil {
		return true
	}
	path := p.Pkg.Path()
	for _, d := range e.bodyDeny {
		if path == d || strings.HasPrefix(path, d+"/") {
			return false
		}
	}
	return true
}

func (e *Engine) DenyBodies(paths ...string) { e.bodyDeny = append(e.bodyDeny, paths...) }

// Load type-checks the given package patterns in dir with the overlay and
// builds the SSA program skeleton (function bodies are built lazily).
func (e *Engine) Load(dir string, overlay map[string][]byte, env []string, patterns ...string) error {
	cfg := &packages.Config{
		Mode:    packages.LoadAllSyntax,
		Dir:     dir,
		Overlay: overlay,
		Env:     append(os.Environ(), env...),
	}
	pkgs, err := packages.Load(cfg, patterns...)
	if err != nil {
		return err
	}
	var errs []string
	packages.Visit(pkgs, nil, func(p *packages.Package) {
		for _, er := range p.Errors {
			errs = append(errs, er.Error())
		}
	})
	if len(errs) > 0 {
		if len(errs) > 10 {
			errs = errs[:10]
		}
		return fmt.Errorf("load errors:\n%s", strings.Join(errs, "\n"))
	}
	prog, _ := ssautil.AllPackages(pkgs, ssa.InstantiateGenerics|ssa.SanityCheckFunctions&0)
	e.Prog = prog
	e.Pkgs = pkgs
	e.SSAPkgs = map[string]*ssa.Package{}
	for _, p := range prog.AllPackages() {
		e.SSAPkgs[p.Pkg.Path()] = p
	}
	return nil
}

// ------------------------------------------------------------- exploration

type PathResult struct {
	Trace      string
	Outcome    string // returned, panicked, assume-false, unsupported, bound-exceeded, engine-error, assert-failed
	Detail     string
	PanicPos   string
	Asserts    []AssertRecord
	Notes      []NoteValue
	Model      map[string]string // inputs reaching the end of this path (sampled)
	Decisions  int
	Steps      int64
	Uncertain  bool
	ForkSites  []string
	Writes       []string // MapOrders mode: ordered database writes
	DataTrace    string   // MapOrders mode: trace without iteration-order choices
	OrderChoices []string
	PCSize     int
}

type NoteValue struct {
	Label  string
	Values []string
}

type HarnessResult struct {
	Package, Func string
	Paths         []PathResult
	Outcomes      map[string]int
	Obligations   int
	Discharged    int
	Violations    []Violation
	Inconclusive  []string
	FuncsEntered  map[string]int
	Stubs         map[string]int
	SolverTime    map[string]float64
	Queries       int
	Decisions     int
	WallS         float64
	AssumeCuts    int
	Disagreements []string
	SolverErrors  int
	OverApprox    int // paths explored although a feasibility query on them was answered unknown
}

type Violation struct {
	Kind  string // "assert" or "panic"
	Label string
	Pos   string
	Trace string
	Model map[string]string
	Msg   string
}

func (e *Engine) RunHarness(pkgPath, fnName string, opts *HarnessOpts) (*HarnessResult, error) {
	pkg := e.SSAPkgs[pkgPath]
	if pkg == nil {
		return nil, fmt.Errorf("package %s not loaded", pkgPath)
	}
	fn := pkg.Func(fnName)
	if fn == nil {
		return nil, fmt.Errorf("harness %s.%s not found", pkgPath, fnName)
	}
	pkg.Build()
	if opts == nil {
		opts = &HarnessOpts{}
	}
	if opts.MaxPaths == 0 {
		opts.MaxPaths = 4000
	}
	if opts.MaxDecisions == 0 {
		opts.MaxDecisions = 400
	}
	backends := opts.Backends
	if len(backends) == 0 {
		backends = []BackendSpec{Z3New, Z3Old, CVC5}
	}

	res := &HarnessResult{Package: pkgPath, Func: fnName, Outcomes: map[string]int{}, FuncsEntered: map[string]int{}, Stubs: map[string]int{}, SolverTime: map[string]float64{}}
	t0 := time.Now()

	var mu sync.Mutex
	cond := sync.NewCond(&mu)
	work := [][]traceEntry{nil}
	active := 0
	started := 0
	truncated := false

	nw := e.Workers
	if nw < 1 {
		nw = 1
	}
	var wg sync.WaitGroup
	for w := 0; w < nw; w++ {
		wg.Add(1)
		go func() {
			defer wg.Done()
			sess := NewSession(backends...)
			if e.TraceSMT {
				sess.Trace = os.Stderr
			}
			defer func() {
				mu.Lock()
				for k, v := range sess.SolverTimes() {
					res.SolverTime[k] += v
				}
				res.Queries += sess.Queries
				res.Disagreements = append(res.Disagreements, sess.Disagree...)
				res.SolverErrors += sess.NErrors
				mu.Unlock()
				sess.Close()
			}()
			for {
				mu.Lock()
				for len(work) == 0 && active > 0 {
					cond.Wait()
				}
				if len(work) == 0 {
					mu.Unlock()
					cond.Broadcast()
					return
				}
				// depth-first: take the most recent item
				prefix := work[len(work)-1]
				work = work[:len(work)-1]
				if started >= opts.MaxPaths {
					truncated = true
					work = nil
					mu.Unlock()
					cond.Broadcast()
					continue
				}
				started++
				active++
				mu.Unlock()

				pr, forks, ctx := e.runPath(fn, prefix, sess, opts)
				if e.Progress {
					fmt.Fprintf(os.Stderr, "[%6.1fs] path %s %s %s (forks %d, queries %d)\n", time.Since(t0).Seconds(), pr.Trace, pr.Outcome, short(pr.Detail, 200), len(forks), sess.Queries)
				}

				mu.Lock()
				active--
				work = append(work, forks...)
				res.Paths = append(res.Paths, pr)
				res.Outcomes[pr.Outcome]++
				res.Decisions += pr.Decisions
				res.AssumeCuts += ctx.assumeCuts
				for k, v := range ctx.funcsEntered {
					res.FuncsEntered[k] += v
				}
				for k, v := range ctx.stubs {
					res.Stubs[k] += v
				}
				mu.Unlock()
				cond.Broadcast()
			}
		}()
	}
	wg.Wait()
	res.WallS = time.Since(t0).Seconds()
	if truncated {
		res.Inconclusive = append(res.Inconclusive, fmt.Sprintf("path bound %d reached: exploration truncated", opts.MaxPaths))
	}
	sort.Slice(res.Paths, func(a, b int) bool { return res.Paths[a].Trace < res.Paths[b].Trace })
	for _, p := range res.Paths {
		for _, a := range p.Asserts {
			switch a.Status {
			case "discharged", "concrete-ok":
				res.Obligations++
				res.Discharged++
			case "violated":
				res.Obligations++
				res.Violations = append(res.Violations, Violation{Kind: "assert", Label: a.Label, Pos: a.Pos, Trace: p.Trace, Model: a.Model})
			default:
				res.Obligations++
				res.Inconclusive = append(res.Inconclusive, fmt.Sprintf("assert %q on path %s: solver answered unknown", a.Label, p.Trace))
			}
		}
		switch p.Outcome {
		case "panicked":
			if p.Uncertain && len(p.Model) == 0 {
				// the path's feasibility was never established (no model): not a
				// counterexample, not a pass
				res.Inconclusive = append(res.Inconclusive, fmt.Sprintf("path %s: panic at %s on a path whose feasibility is undecided: %s", p.Trace, p.PanicPos, short(p.Detail, 200)))
			} else {
				res.Violations = append(res.Violations, Violation{Kind: "panic", Label: "no-panic", Pos: p.PanicPos, Trace: p.Trace, Model: p.Model, Msg: p.Detail})
			}
		case "unsupported", "bound-exceeded", "engine-error":
			res.Inconclusive = append(res.Inconclusive, fmt.Sprintf("path %s: %s: %s", p.Trace, p.Outcome, p.Detail))
		}
		if p.Uncertain {
			// A feasibility query answered unknown makes the engine explore both
			// sides: the set of paths is over-approximated, which keeps every
			// discharged assertion sound (an infeasible path only adds vacuous
			// obligations).  It is recorded, not counted as inconclusive.
			res.OverApprox++
		}
	}
	return res, nil
}

func (e *Engine) runPath(fn *ssa.Function, prefix []traceEntry, sess *Session, opts *HarnessOpts) (pr PathResult, forks [][]traceEntry, ctx *pathCtx) {
	sess.Reset()
	ctx = &pathCtx{eng: e, sess: sess, prefix: prefix, varSeen: map[string]int{}, nFresh: map[string]int{}, opts: opts,
		funcsEntered: map[string]int{}, stubs: map[string]int{}}
	i := &interpreter{eng: e, prog: e.Prog, globals: map[*ssa.Global]*value{}, inited: map[*ssa.Package]bool{},
		sizes: &types.StdSizes{WordSize: 8, MaxAlign: 8}, ctx: ctx, heap: map[string]interface{}{}}
	ctx.siteOf = func() string {
		fr := i.curFrame
		if fr == nil || fr.fn == nil {
			return "?"
		}
		pos := ""
		if fr.curInstr != nil {
			pos = e.Prog.Fset.Position(fr.curInstr.Pos()).String()
		}
		return fr.fn.String() + "@" + pos
	}
	func() {
		defer func() {
			r := recover()
			switch r := r.(type) {
			case nil:
				pr.Outcome = "returned"
			case abortPath:
				pr.Outcome = r.kind
				pr.Detail = r.msg
				if r.kind == "assert-always-false" {
					pr.Outcome = "assert-failed"
				}
			case targetPanic:
				pr.Outcome = "panicked"
				pr.Detail = panicString(r)
				pr.PanicPos = r.pos
			default:
				pr.Outcome = "engine-error"
				pr.Detail = fmt.Sprintf("%T: %v", r, r)
			}
		}()
		call(i, nil, token.NoPos, fn, nil)
	}()
	pr.Trace = traceString(ctx.trace)
	pr.Asserts = ctx.asserts
	pr.Decisions = ctx.symDecisions
	pr.Steps = i.steps
	pr.Uncertain = ctx.uncertain
	pr.ForkSites = ctx.forkSites
	if opts.MapOrders {
		// observable trace of the path: the ordered database writes
		for _, w := range *i.writeLog() {
			pr.Writes = append(pr.Writes, fmt.Sprintf("%s %s %x = %s", w.Store, w.Op, w.Key, dumpValue(w.Val)))
		}
		// the path's identity with the iteration-order choices removed
		isOrder := map[int]bool{}
		for _, k := range ctx.orderIdx {
			isOrder[k] = true
		}
		var rest []traceEntry
		for k, e := range ctx.trace {
			if !isOrder[k] {
				rest = append(rest, e)
			}
		}
		pr.DataTrace = traceString(rest)
		pr.OrderChoices = ctx.orderSites
	}
	pr.PCSize = ctx.pcSize
	if pr.Outcome == "panicked" || pr.Outcome == "returned" {
		// a witness input for this path (replay / differential validation)
		want := pr.Outcome == "panicked" || e.sampleModels(opts)
		if want && len(ctx.vars) > 0 {
			if m := ctx.modelOf(nil); m != nil {
				pr.Model = m
			} else if pr.Outcome == "panicked" {
				pr.Uncertain = true
			}
		} else if want {
			pr.Model = map[string]string{}
		}
	}
	return pr, ctx.forks, ctx
}

func (e *Engine) sampleModels(opts *HarnessOpts) bool { return true }

func panicString(p targetPanic) string {
	s := toString(p.v)
	if len(s) > 300 {
		s = s[:300] + "…"
	}
	if p.pos != "" {
		s += " at " + p.pos
	}
	if len(p.stack) > 0 {
		s += " stack: " + strings.Join(p.stack, " < ")
	}
	return s
}
