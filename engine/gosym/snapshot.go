package gosym

// State-sync stream boundary (C29).  AppDB.Snapshot / AppDB.Restore are run
// for real; what they talk to is modelled:
//
//   - the serialisation pipeline (delimited protobuf -> zlib -> bufio -> SDK
//     chunk writer -> channel, and its mirror image) is an in-order, lossless
//     queue of messages.  A message is deep-copied when written, with the one
//     lossy step of protobuf made explicit: an empty byte slice arrives as nil;
//   - the IAVL exporter yields the leaves of the exported version in key order,
//     with an inner node (no value, height 1) after every second leaf; the
//     importer accepts nodes under iavl's validity rules (key non-nil, leaf
//     value non-nil), ignores inner nodes and makes the leaves the contents of
//     the imported version on Commit;
//   - the goroutine Snapshot spawns is run to completion at the spawn point
//     (Engine.SyncGo), which is one legal schedule: nothing it touches blocks.
//
// Outside the claim: chunking, compression, checksums, the SDK snapshot store
// and manager, concurrency between the snapshot goroutine and block execution.

import (
	"fmt"
	"go/types"
	"os"
	"strings"

	"golang.org/x/tools/go/ssa"
)

func (e *Engine) syncGo(fn string) bool {
	for _, p := range e.SyncGo {
		if strings.HasPrefix(fn, p) {
			return true
		}
	}
	return false
}

type streamH struct{ what string }
type exporterH struct {
	kv      *kvStore
	keys    []string
	version int64
	pos     int // next leaf
	inner   int // inner nodes already emitted
}
type importerH struct {
	m       *treeModel
	version int64
	kv      *kvStore
	closed  bool
}

// protoCopy deep-copies a message as the wire would: pointers and structs are
// rebuilt, empty byte slices become nil.
func protoCopy(v value) value {
	switch x := v.(type) {
	case *value:
		if x == nil {
			return x
		}
		c := protoCopy(*x)
		return &c
	case structure:
		out := make(structure, len(x))
		for i, f := range x {
			out[i] = protoCopy(f)
		}
		return out
	case iface:
		return iface{t: x.t, v: protoCopy(x.v)}
	case []value:
		if len(x) == 0 {
			return []value(nil)
		}
		out := make([]value, len(x))
		copy(out, x)
		return out
	case array:
		out := make(array, len(x))
		copy(out, x)
		return out
	}
	return v
}

func (i *interpreter) snapshotQueue() *[]value {
	if q, ok := i.heap["snapshot.stream"]; ok {
		return q.(*[]value)
	}
	q := &[]value{}
	i.heap["snapshot.stream"] = q
	return q
}

func namedPtr(e *Engine, pkg, name string) types.Type {
	p := e.SSAPkgs[pkg]
	if p == nil {
		panic(abortPath{"engine-error", "package " + pkg + " not loaded"})
	}
	t := p.Type(name)
	if t == nil {
		panic(abortPath{"engine-error", "type " + pkg + "." + name + " not found"})
	}
	return types.NewPointer(t.Type())
}

func globalCell(i *interpreter, pkg, name string) *value {
	p := i.eng.SSAPkgs[pkg]
	if p == nil {
		panic(abortPath{"engine-error", "package " + pkg + " not loaded"})
	}
	g, _ := p.Members[name].(*ssa.Global)
	if g == nil {
		panic(abortPath{"engine-error", "global " + pkg + "." + name + " not found"})
	}
	i.ensureInit(p)
	return i.globals[g]
}

func registerSnapshot(e *Engine) {
	R := e.Register
	const (
		sdk   = "github.com/cosmos/cosmos-sdk/snapshots"
		pio   = "github.com/gogo/protobuf/io"
		iavlP = "github.com/cosmos/iavl"
	)
	handle := func(what string) value {
		var cell value = streamH{what}
		return &cell
	}
	nilErr := func(fr *frame, a []value) value { return iface{} }
	nothing := func(fr *frame, a []value) value { return nil }

	// ---- the byte pipeline: opaque stages
	R(sdk+".NewChunkWriter", func(fr *frame, a []value) value { return handle("chunk writer") })
	R("(*"+sdk+".ChunkWriter).Close", nilErr)
	R("(*"+sdk+".ChunkWriter).CloseWithError", func(fr *frame, a []value) value {
		panic(abortPath{"unsupported", "snapshot stream closed with an error (error paths of the pipeline are outside the model)"})
	})
	R(sdk+".NewChunkReader", func(fr *frame, a []value) value { return handle("chunk reader") })
	R("(*"+sdk+".ChunkReader).Close", nilErr)
	R("bufio.NewWriterSize", func(fr *frame, a []value) value { return handle("bufio writer") })
	R("(*bufio.Writer).Flush", nilErr)
	R("compress/zlib.NewWriterLevel", func(fr *frame, a []value) value { return tuple{handle("zlib writer"), iface{}} })
	R("(*compress/zlib.Writer).Close", nilErr)
	R("compress/zlib.NewReader", func(fr *frame, a []value) value {
		return tuple{iface{t: namedPtr(fr.i.eng, "compress/zlib", "reader"), v: handle("zlib reader")}, iface{}}
	})
	R("(*compress/zlib.reader).Close", nilErr)

	// ---- the message layer: a lossless in-order queue
	R(pio+".NewDelimitedWriter", func(fr *frame, a []value) value {
		return iface{t: namedPtr(fr.i.eng, pio, "varintWriter"), v: handle("delimited writer")}
	})
	R("(*"+pio+".varintWriter).WriteMsg", func(fr *frame, a []value) value {
		msg, ok := a[1].(iface)
		if !ok || msg.v == nil {
			panic(abortPath{"engine-error", "WriteMsg of a nil message"})
		}
		q := fr.i.snapshotQueue()
		*q = append(*q, protoCopy(*derefPtr(msg.v, "protobuf message")))
		if os.Getenv("VERIF_DEBUG_STREAM") != "" {
			fmt.Fprintln(os.Stderr, "WriteMsg:", dumpValue((*q)[len(*q)-1]))
		}
		return iface{}
	})
	R("(*"+pio+".varintWriter).Close", nilErr)
	R(pio+".NewDelimitedReader", func(fr *frame, a []value) value {
		return iface{t: namedPtr(fr.i.eng, pio, "varintReader"), v: handle("delimited reader")}
	})
	R("(*"+pio+".varintReader).ReadMsg", func(fr *frame, a []value) value {
		q := fr.i.snapshotQueue()
		if len(*q) == 0 {
			return *globalCell(fr.i, "io", "EOF")
		}
		head := (*q)[0]
		*q = (*q)[1:]
		msg := a[1].(iface)
		*derefPtr(msg.v, "protobuf message") = head
		return iface{}
	})
	R("(*"+pio+".varintReader).Close", nilErr)

	// ---- IAVL export / import over the tree model
	exportDone := func(fr *frame) value {
		c := globalCell(fr.i, iavlP, "ExportDone")
		if it, ok := (*c).(iface); !ok || it.t == nil {
			*c = makeError(fr, "export is complete")
		}
		return *c
	}
	R("(*"+iavlP+".ImmutableTree).Export", func(fr *frame, a []value) value {
		t := immTree(a[0])
		exportDone(fr) // iavl's init is not run: give the sentinel its value before anyone compares with it
		var cell value = &exporterH{kv: t.kv, keys: t.kv.sortedKeys(), version: t.version}
		return &cell
	})
	exporterOf := func(v value) *exporterH {
		h, ok := (*derefPtr(v, "*iavl.Exporter")).(*exporterH)
		if !ok {
			panic(abortPath{"engine-error", "not an exporter model"})
		}
		return h
	}
	R("(*"+iavlP+".Exporter).Next", func(fr *frame, a []value) value {
		h := exporterOf(a[0])
		nodeT := deref(fr.fn.Signature.Results().At(0).Type())
		mk := func(key, val value, height int8) value {
			var n value = zero(nodeT)
			s := n.(structure)
			s[0], s[1], s[2], s[3] = key, val, h.version, height
			return &n
		}
		// an inner node after every second leaf (post-order of a balanced tree,
		// flattened to height 1): key of the leaf just emitted, no value
		if h.pos > 0 && h.pos%2 == 0 && h.inner < h.pos/2 {
			h.inner++
			return tuple{mk(concreteBytes([]byte(h.keys[h.pos-1])), []value(nil), 1), iface{}}
		}
		if h.pos >= len(h.keys) {
			return tuple{(*value)(nil), exportDone(fr)}
		}
		k := h.keys[h.pos]
		h.pos++
		return tuple{mk(concreteBytes([]byte(k)), h.kv.m[k], 0), iface{}}
	})
	R("(*"+iavlP+".Exporter).Close", nothing)

	R("(*"+iavlP+".MutableTree).Import", func(fr *frame, a []value) value {
		m := mutTreeOf(fr.i, a[0])
		v := asInt64(a[1])
		if v < 0 {
			return tuple{(*value)(nil), makeError(fr, "imported version cannot be negative")}
		}
		if len(m.versions) != 0 {
			return tuple{(*value)(nil), makeError(fr, "found database at a later version, must be 0")}
		}
		if len(m.working.m) != 0 {
			return tuple{(*value)(nil), makeError(fr, "tree must be empty")}
		}
		var cell value = &importerH{m: m, version: v, kv: newKV()}
		return tuple{&cell, iface{}}
	})
	importerOf := func(v value) *importerH {
		h, ok := (*derefPtr(v, "*iavl.Importer")).(*importerH)
		if !ok {
			panic(abortPath{"engine-error", "not an importer model"})
		}
		return h
	}
	isNilBytes := func(v value) bool {
		s, ok := v.([]value)
		return ok && s == nil
	}
	R("(*"+iavlP+".Importer).Add", func(fr *frame, a []value) value {
		h := importerOf(a[0])
		if h.closed {
			return makeError(fr, "importer is closed")
		}
		np, _ := a[1].(*value)
		if np == nil {
			return makeError(fr, "node cannot be nil")
		}
		n := (*np).(structure)
		key, val, version, height := n[0], n[1], asInt64(n[2]), asInt64(n[3])
		if version > h.version {
			return makeError(fr, fmt.Sprintf("node version %v can't be greater than import version %v", version, h.version))
		}
		if isNilBytes(key) {
			return makeError(fr, "key cannot be nil")
		}
		if height < 0 {
			return makeError(fr, "height cannot be less than zero")
		}
		if height == 0 {
			if isNilBytes(val) {
				return makeError(fr, "value cannot be nil for leaf node")
			}
			h.kv.m[keyStringFr(fr, key, "Importer.Add")] = val
			return iface{}
		}
		if !isNilBytes(val) {
			return makeError(fr, "value must be nil for non-leaf node")
		}
		return iface{}
	})
	R("(*"+iavlP+".Importer).Commit", func(fr *frame, a []value) value {
		h := importerOf(a[0])
		if h.closed {
			return makeError(fr, "importer is closed")
		}
		h.m.versions[h.version] = h.kv.clone()
		h.m.working, h.m.version = h.kv.clone(), h.version
		h.m.sync()
		w := fr.i.writeLog()
		*w = append(*w, WriteRec{Store: h.m.name, Op: "import", Key: fmt.Sprint(h.version)})
		h.closed = true
		return iface{}
	})
	// ---- SDK snapshot manager and store: Create asks the registered
	// Snapshotter for a snapshot of the height (format 1) and keeps the stream
	// (here: the message queue); Load hands it back.  Chunk files, hashes,
	// metadata and pruning are outside the model.
	R(sdk+".NewStore", func(fr *frame, a []value) value { return tuple{handle("snapshot store"), iface{}} })
	R(sdk+".NewManager", func(fr *frame, a []value) value {
		fr.i.heap["snapshot.target"] = a[1]
		return handle("snapshot manager")
	})
	snapPtr := func(fr *frame, idx int) value {
		var s value = zero(deref(fr.fn.Signature.Results().At(idx).Type()))
		return &s
	}
	R("(*"+sdk+".Manager).Create", func(fr *frame, a []value) value {
		target, ok := fr.i.heap["snapshot.target"].(iface)
		if !ok || target.t == nil {
			panic(abortPath{"engine-error", "snapshot manager without a snapshotter"})
		}
		fn := fr.i.prog.LookupMethod(target.t, nil, "Snapshot")
		if fn == nil {
			panic(abortPath{"engine-error", "snapshotter has no Snapshot method"})
		}
		res := callValue(fr, fn, target.v, a[1], uint32(1)).(tuple)
		if e, ok := res[1].(iface); ok && e.t != nil {
			return tuple{(*value)(nil), res[1]}
		}
		fr.i.heap["snapshot.created"] = true
		return tuple{snapPtr(fr, 0), iface{}}
	})
	R("(*"+sdk+".Manager).Prune", func(fr *frame, a []value) value { return tuple{uint64(0), iface{}} })
	R("(*"+sdk+".Store).Get", func(fr *frame, a []value) value {
		if done, _ := fr.i.heap["snapshot.created"].(bool); !done {
			return tuple{(*value)(nil), iface{}}
		}
		return tuple{snapPtr(fr, 0), iface{}}
	})
	R("(*"+sdk+".Store).Load", func(fr *frame, a []value) value {
		if done, _ := fr.i.heap["snapshot.created"].(bool); !done {
			return tuple{(*value)(nil), (chan value)(nil), iface{}}
		}
		return tuple{snapPtr(fr, 0), (chan value)(nil), iface{}}
	})
	R("os.MkdirTemp", func(fr *frame, a []value) value { return tuple{"/nonexistent/verif-snapshots", iface{}} })
	R("os.RemoveAll", func(fr *frame, a []value) value { return iface{} })
	R("time.Sleep", func(fr *frame, a []value) value { return nil })

	// ---- SDK error decoration (captures a stack trace through the runtime):
	// a wrapped error is some non-nil error; wrapping nil gives nil
	wrap := func(fr *frame, a []value) value {
		if it, ok := a[0].(iface); ok && it.t == nil {
			return iface{}
		}
		desc, _ := a[1].(string)
		return makeError(fr, "wrapped: "+desc)
	}
	R("github.com/cosmos/cosmos-sdk/types/errors.Wrap", wrap)
	R("github.com/cosmos/cosmos-sdk/types/errors.Wrapf", wrap)

	R("(*"+iavlP+".Importer).Close", func(fr *frame, a []value) value {
		importerOf(a[0]).closed = true
		return nil
	})
}
