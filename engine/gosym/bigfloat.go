package gosym

// math/big.Float.  Two models, chosen per harness (HarnessOpts.FloatMode):
//
//   "real" (default): a big.Float is an exact real number (SMT Real term).
//          Rounding to the mantissa width is ignored; used where rounding is
//          not the subject (bancor formula layer, reward price) and stated as
//          outside the claim.
//   "fp":  a big.Float of precision p is a FloatingPoint(fpEb, p) term with
//          round-nearest-even, the big.Float default; used where rounding IS
//          the subject (governance threshold).

import (
	"fmt"
	"go/types"
	"math"
	"math/big"
)

type bigFloat struct {
	Prec uint  // fp mode: mantissa bits (0 = unset); real mode: informational
	T    *Term // Real term (real mode) or FloatingPoint term (fp mode); nil = +0
	FP   bool
}

const fpEb = 20

func newBigFloatZero() value { return bigFloat{} }

func RealConstRat(r *big.Rat) *Term {
	t := &Term{Op: "const", S: RealSort, Val: new(big.Int).Set(r.Num()), size: 1}
	if r.Denom().Cmp(big.NewInt(1)) != 0 {
		t.Den = new(big.Int).Set(r.Denom())
	}
	return t
}

func toReal(t *Term) *Term {
	if t.IsConst() && t.S.K == SInt {
		return RealConstRat(new(big.Rat).SetInt(t.Val))
	}
	return Raw("to_real", RealSort, t)
}

func realIsConst(t *Term) (*big.Rat, bool) {
	if t.IsConst() && t.S.K == SReal {
		d := big.NewInt(1)
		if t.Den != nil {
			d = t.Den
		}
		return new(big.Rat).SetFrac(t.Val, d), true
	}
	return nil, false
}

func realBin(op string, a, b *Term) *Term {
	ra, oka := realIsConst(a)
	rb, okb := realIsConst(b)
	if oka && okb {
		switch op {
		case "+":
			return RealConstRat(new(big.Rat).Add(ra, rb))
		case "-":
			return RealConstRat(new(big.Rat).Sub(ra, rb))
		case "*":
			return RealConstRat(new(big.Rat).Mul(ra, rb))
		case "/":
			if rb.Sign() != 0 {
				return RealConstRat(new(big.Rat).Quo(ra, rb))
			}
		}
	}
	return Raw(op, RealSort, a, b)
}

func realCmp(op string, a, b *Term) *Term {
	ra, oka := realIsConst(a)
	rb, okb := realIsConst(b)
	if oka && okb {
		c := ra.Cmp(rb)
		switch op {
		case "<":
			return BoolConst(c < 0)
		case "=":
			return BoolConst(c == 0)
		case "<=":
			return BoolConst(c <= 0)
		}
	}
	return Raw(op, BoolSort, a, b)
}

func floatOf(v value) bigFloat {
	p, ok := v.(*value)
	if !ok {
		panic(abortPath{"engine-error", fmt.Sprintf("floatOf: %T", v)})
	}
	if p == nil {
		panic(runtimePanic("invalid memory address or nil pointer dereference (nil *big.Float)"))
	}
	f, ok := (*p).(bigFloat)
	if !ok {
		panic(abortPath{"engine-error", fmt.Sprintf("floatOf: pointee %T", *p)})
	}
	return f
}

func (f bigFloat) real() *Term {
	if f.T == nil {
		return RealConstRat(new(big.Rat))
	}
	return f.T
}

func setFloat(v value, f bigFloat) value {
	p := v.(*value)
	if p == nil {
		panic(runtimePanic("nil *big.Float receiver"))
	}
	*p = f
	return v
}

func fpMode(fr *frame) bool {
	return fr.i.ctx.opts != nil && fr.i.ctx.opts.FloatMode == "fp"
}

// truncToInt is big.Float.Int: truncation toward zero of a real term.
func truncToInt(t *Term) *Term {
	if r, ok := realIsConst(t); ok {
		q := new(big.Int).Quo(r.Num(), r.Denom())
		return IntConst(q)
	}
	zero := RealConstRat(new(big.Rat))
	return Ite(Raw(">=", BoolSort, t, zero), Raw("to_int", IntSort, t), Neg(Raw("to_int", IntSort, Raw("-", RealSort, t))))
}

func registerBigFloat(e *Engine) {
	R := e.Register
	newF := func(f bigFloat) value {
		var cell value = f
		return &cell
	}
	R("math/big.NewFloat", func(fr *frame, a []value) value {
		x, ok := a[0].(float64)
		if !ok {
			panic(abortPath{"unsupported", "big.NewFloat of a symbolic float64"})
		}
		if math.IsNaN(x) {
			panic(targetPanic{v: iface{t: types.Typ[types.String], v: "NewFloat(NaN)"}})
		}
		if fpMode(fr) {
			return newF(fpFromFloat64(x))
		}
		r, _ := new(big.Rat).SetString(new(big.Float).SetFloat64(x).Text('f', -1))
		if r == nil {
			r = new(big.Rat).SetFloat64(x)
		}
		return newF(bigFloat{Prec: 53, T: RealConstRat(r)})
	})
	R("(*math/big.Float).SetPrec", func(fr *frame, a []value) value {
		f := floatOf(a[0])
		prec := uint(asInt64(a[1]))
		if fpMode(fr) {
			return setFloat(a[0], fpSetPrec(f, prec))
		}
		f.Prec = prec
		return setFloat(a[0], f)
	})
	R("(*math/big.Float).SetInt", func(fr *frame, a []value) value {
		f := floatOf(a[0])
		x := bigOf(a[1])
		if fpMode(fr) {
			return setFloat(a[0], fpSetInt(fr, f, x))
		}
		return setFloat(a[0], bigFloat{Prec: f.Prec, T: toReal(x)})
	})
	R("(*math/big.Float).SetInt64", func(fr *frame, a []value) value {
		f := floatOf(a[0])
		x, _ := intTerm(a[1])
		if fpMode(fr) {
			return setFloat(a[0], fpSetInt(fr, f, x))
		}
		return setFloat(a[0], bigFloat{Prec: f.Prec, T: toReal(x)})
	})
	R("(*math/big.Float).SetFloat64", func(fr *frame, a []value) value {
		x, ok := a[1].(float64)
		if !ok {
			panic(abortPath{"unsupported", "SetFloat64 of symbolic float64"})
		}
		f := floatOf(a[0])
		if fpMode(fr) {
			g := fpFromFloat64(x)
			if f.Prec != 0 {
				g = fpSetPrec(g, f.Prec)
			}
			return setFloat(a[0], g)
		}
		return setFloat(a[0], bigFloat{Prec: f.Prec, T: RealConstRat(new(big.Rat).SetFloat64(x))})
	})
	R("(*math/big.Float).SetRat", func(fr *frame, a []value) value {
		f := floatOf(a[0])
		p := a[1].(*value)
		r := (*p).(bigRat)
		if fpMode(fr) {
			panic(abortPath{"unsupported", "big.Float.SetRat in fp mode"})
		}
		return setFloat(a[0], bigFloat{Prec: f.Prec, T: realBin("/", toReal(r.N), toReal(r.D))})
	})
	R("(*math/big.Float).Set", func(fr *frame, a []value) value {
		f, x := floatOf(a[0]), floatOf(a[1])
		if fpMode(fr) {
			g := x
			if f.Prec != 0 && f.Prec != x.Prec {
				g = fpSetPrec(x, f.Prec)
			}
			return setFloat(a[0], g)
		}
		return setFloat(a[0], bigFloat{Prec: f.Prec, T: x.T})
	})
	bin := func(op string) intrinsic {
		return func(fr *frame, a []value) value {
			z, x, y := floatOf(a[0]), floatOf(a[1]), floatOf(a[2])
			if fpMode(fr) {
				return setFloat(a[0], fpBin(fr, op, z, x, y))
			}
			if op == "/" {
				if rz, ok := realIsConst(y.real()); ok && rz.Sign() == 0 {
					panic(abortPath{"unsupported", "big.Float division by zero (Inf)"})
				}
				zero := RealConstRat(new(big.Rat))
				if _, ok := realIsConst(y.real()); !ok && fr.i.decide(realCmp("=", y.real(), zero)) {
					panic(abortPath{"unsupported", "big.Float division by a possibly-zero value (Inf)"})
				}
			}
			return setFloat(a[0], bigFloat{Prec: z.Prec, T: realBin(op, x.real(), y.real())})
		}
	}
	R("(*math/big.Float).Add", bin("+"))
	R("(*math/big.Float).Sub", bin("-"))
	R("(*math/big.Float).Mul", bin("*"))
	R("(*math/big.Float).Quo", bin("/"))
	R("(*math/big.Float).Neg", func(fr *frame, a []value) value {
		z, x := floatOf(a[0]), floatOf(a[1])
		if fpMode(fr) {
			panic(abortPath{"unsupported", "big.Float.Neg in fp mode"})
		}
		return setFloat(a[0], bigFloat{Prec: z.Prec, T: realBin("-", RealConstRat(new(big.Rat)), x.real())})
	})
	R("(*math/big.Float).Cmp", func(fr *frame, a []value) value {
		x, y := floatOf(a[0]), floatOf(a[1])
		if fpMode(fr) {
			return fpCmp(x, y)
		}
		lt := realCmp("<", x.real(), y.real())
		eq := realCmp("=", x.real(), y.real())
		return mkInt(Ite(lt, IntConst64(-1), Ite(eq, IntConst64(0), IntConst64(1))), types.Int)
	})
	R("(*math/big.Float).Sign", func(fr *frame, a []value) value {
		x := floatOf(a[0])
		if fpMode(fr) {
			panic(abortPath{"unsupported", "big.Float.Sign in fp mode"})
		}
		zero := RealConstRat(new(big.Rat))
		return mkInt(Ite(realCmp("<", x.real(), zero), IntConst64(-1), Ite(realCmp("=", x.real(), zero), IntConst64(0), IntConst64(1))), types.Int)
	})
	R("(*math/big.Float).Int", func(fr *frame, a []value) value {
		x := floatOf(a[0])
		if fpMode(fr) {
			panic(abortPath{"unsupported", "big.Float.Int in fp mode"})
		}
		r := truncToInt(x.real())
		var z value
		if p, ok := a[1].(*value); ok && p != nil {
			z = setBig(a[1], r)
		} else {
			z = bigCell(r)
		}
		return tuple{z, int8(0)} // accuracy not modelled
	})
	R("(*math/big.Float).String", opaqueString)
	R("(*math/big.Float).Text", opaqueString)
	R("(*math/big.Float).Prec", func(fr *frame, a []value) value { return floatOf(a[0]).Prec })

	// ---- the repository's own math package: Pow/Exp/Log as an uninterpreted
	// function over the reals with the facts listed in DESIGN.md §2.5
	mp := e.ModulePath + "/math"
	R(mp+".Pow", func(fr *frame, a []value) value {
		if fpMode(fr) {
			panic(abortPath{"unsupported", "math.Pow in fp mode"})
		}
		z, w := floatOf(a[0]), floatOf(a[1])
		zero := RealConstRat(new(big.Rat))
		one := RealConstRat(big.NewRat(1, 1))
		zt, wt := z.real(), w.real()
		if fr.i.decide(realCmp("<", zt, zero)) {
			panic(targetPanic{v: iface{t: types.Typ[types.String], v: "Pow: negative base"}, pos: callerPos(fr)})
		}
		c := fr.i.ctx
		r := App("math.Pow", RealSort, zt, wt)
		c.RecordUF("math.Pow", r, zt, wt)
		wpos := realCmp("<", zero, wt)
		c.Constrain(Implies(realCmp("<", zero, zt), realCmp("<", zero, r)))
		c.Constrain(Implies(realCmp("=", zt, one), realCmp("=", r, one)))
		c.Constrain(Implies(And(realCmp("<", zero, zt), realCmp("<=", zt, one), wpos), realCmp("<=", r, one)))
		c.Constrain(Implies(And(realCmp("<=", one, zt), wpos), realCmp("<=", one, r)))
		c.Constrain(Implies(realCmp("=", wt, one), realCmp("=", r, zt)))
		c.Constrain(Implies(realCmp("=", wt, zero), realCmp("=", r, one)))
		c.Constrain(Implies(And(realCmp("=", zt, zero), wpos), realCmp("=", r, zero)))
		return newF(bigFloat{Prec: 100, T: r})
	})
}

// ---- fp mode (filled in by fp.go)
