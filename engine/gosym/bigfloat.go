package gosym

// math/big.Float.  Three layers:
//
//   concrete: while every operand of an operation is a concrete number the
//          operation is executed by Go's own big.Float (bit-exact: precision,
//          rounding mode and accuracy as in the real program);
//   "real" (default float mode for symbolic operands): a big.Float is an exact
//          real number (SMT Real term).  Rounding to the mantissa width is
//          ignored; used where rounding is not the subject (bancor formula
//          layer, reward price, order prices) and stated as outside the claim;
//   "fp":  a big.Float of precision p is a FloatingPoint(fpE, p) term with
//          round-nearest-even; used where rounding IS the subject (C20).

import (
	"fmt"
	"go/types"
	"math"
	"math/big"
)

type bigFloat struct {
	Prec uint       // fp mode: mantissa bits (0 = unset); real mode: informational
	T    *Term      // Real term (real mode) or FloatingPoint term (fp mode); nil = +0
	FP   bool       // T is a FloatingPoint term
	C    *big.Float // non-nil: the value is concrete; never mutated in place
}

func newBigFloatZero() value { return bigFloat{C: new(big.Float)} }

func RealConstRat(r *big.Rat) *Term {
	t := &Term{Op: "const", S: RealSort, Val: new(big.Int).Set(r.Num()), size: 1}
	if r.Denom().Cmp(big.NewInt(1)) != 0 {
		t.Den = new(big.Int).Set(r.Denom())
	}
	return t
}

func toReal(t *Term) *Term {
	if t.IsConst() && t.S.K == SInt {
		return RealConstRat(new(big.Rat).SetInt(t.Val))
	}
	return Raw("to_real", RealSort, t)
}

func realIsConst(t *Term) (*big.Rat, bool) {
	if t.IsConst() && t.S.K == SReal {
		d := big.NewInt(1)
		if t.Den != nil {
			d = t.Den
		}
		return new(big.Rat).SetFrac(t.Val, d), true
	}
	return nil, false
}

func realBin(op string, a, b *Term) *Term {
	ra, oka := realIsConst(a)
	rb, okb := realIsConst(b)
	if oka && okb {
		switch op {
		case "+":
			return RealConstRat(new(big.Rat).Add(ra, rb))
		case "-":
			return RealConstRat(new(big.Rat).Sub(ra, rb))
		case "*":
			return RealConstRat(new(big.Rat).Mul(ra, rb))
		case "/":
			if rb.Sign() != 0 {
				return RealConstRat(new(big.Rat).Quo(ra, rb))
			}
		}
	}
	return Raw(op, RealSort, a, b)
}

func realCmp(op string, a, b *Term) *Term {
	ra, oka := realIsConst(a)
	rb, okb := realIsConst(b)
	if oka && okb {
		c := ra.Cmp(rb)
		switch op {
		case "<":
			return BoolConst(c < 0)
		case "=":
			return BoolConst(c == 0)
		case "<=":
			return BoolConst(c <= 0)
		}
	}
	return Raw(op, BoolSort, a, b)
}

func floatOf(v value) bigFloat {
	p, ok := v.(*value)
	if !ok {
		panic(abortPath{"engine-error", fmt.Sprintf("floatOf: %T", v)})
	}
	if p == nil {
		panic(runtimePanic("invalid memory address or nil pointer dereference (nil *big.Float)"))
	}
	f, ok := (*p).(bigFloat)
	if !ok {
		panic(abortPath{"engine-error", fmt.Sprintf("floatOf: pointee %T", *p)})
	}
	return f
}

// concF wraps a concrete big.Float.
func concF(c *big.Float) bigFloat { return bigFloat{Prec: c.Prec(), C: c} }

// real returns the exact real value as a term.
func (f bigFloat) real() *Term {
	if f.C != nil {
		if f.C.IsInf() {
			panic(abortPath{"unsupported", "infinite big.Float"})
		}
		r, _ := f.C.Rat(nil)
		if r == nil {
			r = new(big.Rat)
		}
		return RealConstRat(r)
	}
	if f.T == nil {
		return RealConstRat(new(big.Rat))
	}
	return f.T
}

// clone returns a mutable copy of a concrete float (same value, prec, mode).
func cloneF(c *big.Float) *big.Float { return new(big.Float).Copy(c) }

func setFloat(v value, f bigFloat) value {
	p := v.(*value)
	if p == nil {
		panic(runtimePanic("nil *big.Float receiver"))
	}
	*p = f
	return v
}

func fpMode(fr *frame) bool {
	return fr.i.ctx.opts != nil && fr.i.ctx.opts.FloatMode == "fp"
}

// truncToInt is big.Float.Int: truncation toward zero of a real term.
func truncToInt(t *Term) *Term {
	if r, ok := realIsConst(t); ok {
		q := new(big.Int).Quo(r.Num(), r.Denom())
		return IntConst(q)
	}
	zero := RealConstRat(new(big.Rat))
	return Ite(Raw(">=", BoolSort, t, zero), Raw("to_int", IntSort, t), Neg(Raw("to_int", IntSort, Raw("-", RealSort, t))))
}

const roundIntExtra = 10

// roundIntToPrec is round-to-nearest-even of a non-negative integer below
// 2^(prec+roundIntExtra) to prec significant bits, as integer arithmetic.
func roundIntToPrec(x *Term, prec int) *Term {
	// one case per bit length prec+1 .. prec+roundIntExtra, nested as else-branches
	var build func(k int) *Term
	build = func(k int) *Term {
		if k > prec+roundIntExtra {
			return x // unreachable under the bound checked by the caller
		}
		sh := k - prec
		m := IntConst(pow2(sh))
		q := EDiv(x, m)
		rem := EMod(x, m)
		half := IntConst(pow2(sh - 1))
		up := Or(Gt(rem, half), And(Eq(rem, half), Eq(EMod(q, IntConst64(2)), IntConst64(1))))
		v := Mul(Add(q, Ite(up, IntConst64(1), IntConst64(0))), m)
		return Ite(Lt(x, IntConst(pow2(k))), v, build(k+1))
	}
	return Ite(Lt(x, IntConst(pow2(prec))), x, build(prec+1))
}

func registerBigFloat(e *Engine) {
	R := e.Register
	newF := func(f bigFloat) value {
		var cell value = f
		return &cell
	}
	R("math/big.NewFloat", func(fr *frame, a []value) value {
		x, ok := a[0].(float64)
		if !ok {
			panic(abortPath{"unsupported", "big.NewFloat of a symbolic float64"})
		}
		if math.IsNaN(x) {
			panic(targetPanic{v: iface{t: types.Typ[types.String], v: "NewFloat(NaN)"}})
		}
		if fpMode(fr) {
			return newF(fpFromFloat64(x))
		}
		return newF(concF(big.NewFloat(x)))
	})
	R("(*math/big.Float).SetPrec", func(fr *frame, a []value) value {
		f := floatOf(a[0])
		prec := uint(asInt64(a[1]))
		if f.C != nil {
			return setFloat(a[0], concF(cloneF(f.C).SetPrec(prec)))
		}
		if fpMode(fr) {
			return setFloat(a[0], fpSetPrec(f, prec))
		}
		f.Prec = prec
		return setFloat(a[0], f)
	})
	R("(*math/big.Float).SetMode", func(fr *frame, a []value) value { return a[0] })
	R("(*math/big.Float).SetInt", func(fr *frame, a []value) value {
		f := floatOf(a[0])
		x := bigOf(a[1])
		if x.IsConst() && f.C != nil {
			return setFloat(a[0], concF(cloneF(f.C).SetInt(x.Val)))
		}
		if fpMode(fr) {
			return setFloat(a[0], fpSetInt(fr, f, x))
		}
		if fr.i.ctx.opts != nil && fr.i.ctx.opts.FloatMode == "real-roundint" {
			// SetInt into a receiver of precision p rounds to nearest-even at p
			// bits: modelled exactly for 0 <= x < 2^(p+roundIntExtra)
			prec := f.Prec
			if f.C != nil {
				prec = f.C.Prec()
			}
			if prec != 0 {
				if fr.i.decide(Or(Lt(x, IntConst64(0)), Ge(x, IntConst(pow2(int(prec)+roundIntExtra))))) {
					panic(abortPath{"bound-exceeded", fmt.Sprintf("big.Float.SetInt of an integer outside [0, 2^%d) in real-roundint mode", int(prec)+roundIntExtra)})
				}
				return setFloat(a[0], bigFloat{Prec: prec, T: toReal(roundIntToPrec(x, int(prec)))})
			}
		}
		return setFloat(a[0], bigFloat{Prec: f.Prec, T: toReal(x)})
	})
	R("(*math/big.Float).SetInt64", func(fr *frame, a []value) value {
		f := floatOf(a[0])
		x, _ := intTerm(a[1])
		if x.IsConst() && f.C != nil {
			return setFloat(a[0], concF(cloneF(f.C).SetInt(x.Val)))
		}
		if fpMode(fr) {
			return setFloat(a[0], fpSetInt(fr, f, x))
		}
		return setFloat(a[0], bigFloat{Prec: f.Prec, T: toReal(x)})
	})
	R("(*math/big.Float).SetFloat64", func(fr *frame, a []value) value {
		x, ok := a[1].(float64)
		if !ok {
			panic(abortPath{"unsupported", "SetFloat64 of symbolic float64"})
		}
		f := floatOf(a[0])
		if f.C != nil {
			return setFloat(a[0], concF(cloneF(f.C).SetFloat64(x)))
		}
		if fpMode(fr) {
			g := fpFromFloat64(x)
			if f.Prec != 0 {
				g = fpSetPrec(g, f.Prec)
			}
			return setFloat(a[0], g)
		}
		return setFloat(a[0], bigFloat{Prec: f.Prec, T: RealConstRat(new(big.Rat).SetFloat64(x))})
	})
	R("(*math/big.Float).SetRat", func(fr *frame, a []value) value {
		f := floatOf(a[0])
		p := a[1].(*value)
		r := (*p).(bigRat)
		if r.N.IsConst() && r.D.IsConst() && f.C != nil {
			return setFloat(a[0], concF(cloneF(f.C).SetRat(new(big.Rat).SetFrac(r.N.Val, r.D.Val))))
		}
		if fpMode(fr) {
			panic(abortPath{"unsupported", "big.Float.SetRat of a symbolic rational in fp mode"})
		}
		return setFloat(a[0], bigFloat{Prec: f.Prec, T: realBin("/", toReal(r.N), toReal(r.D))})
	})
	R("(*math/big.Float).Set", func(fr *frame, a []value) value {
		f, x := floatOf(a[0]), floatOf(a[1])
		if f.C != nil && x.C != nil {
			return setFloat(a[0], concF(cloneF(f.C).Set(x.C)))
		}
		if fpMode(fr) {
			g := x
			if f.Prec != 0 && f.Prec != x.Prec {
				g = fpSetPrec(x, f.Prec)
			}
			return setFloat(a[0], g)
		}
		return setFloat(a[0], bigFloat{Prec: f.Prec, T: x.real()})
	})
	bin := func(op string) intrinsic {
		return func(fr *frame, a []value) value {
			z, x, y := floatOf(a[0]), floatOf(a[1]), floatOf(a[2])
			if z.C != nil && x.C != nil && y.C != nil {
				zc := cloneF(z.C)
				switch op {
				case "+":
					zc.Add(x.C, y.C)
				case "-":
					zc.Sub(x.C, y.C)
				case "*":
					zc.Mul(x.C, y.C)
				case "/":
					if y.C.Sign() == 0 && x.C.Sign() == 0 {
						panic(targetPanic{v: iface{t: types.Typ[types.String], v: "division of zero by zero or infinity by infinity"}, pos: callerPos(fr)})
					}
					zc.Quo(x.C, y.C)
				}
				return setFloat(a[0], concF(zc))
			}
			if fpMode(fr) {
				return setFloat(a[0], fpBin(fr, op, fpOf(z), fpOf(x), fpOf(y)))
			}
			if op == "/" {
				zero := RealConstRat(new(big.Rat))
				if fr.i.decide(realCmp("=", y.real(), zero)) {
					panic(abortPath{"unsupported", "big.Float division by a possibly-zero value (Inf)"})
				}
			}
			return setFloat(a[0], bigFloat{Prec: z.Prec, T: realBin(op, x.real(), y.real())})
		}
	}
	R("(*math/big.Float).Add", bin("+"))
	R("(*math/big.Float).Sub", bin("-"))
	R("(*math/big.Float).Mul", bin("*"))
	R("(*math/big.Float).Quo", bin("/"))
	R("(*math/big.Float).Neg", func(fr *frame, a []value) value {
		z, x := floatOf(a[0]), floatOf(a[1])
		if z.C != nil && x.C != nil {
			return setFloat(a[0], concF(cloneF(z.C).Neg(x.C)))
		}
		if fpMode(fr) {
			panic(abortPath{"unsupported", "big.Float.Neg in fp mode"})
		}
		return setFloat(a[0], bigFloat{Prec: z.Prec, T: realBin("-", RealConstRat(new(big.Rat)), x.real())})
	})
	R("(*math/big.Float).Sqrt", func(fr *frame, a []value) value {
		z, x := floatOf(a[0]), floatOf(a[1])
		if z.C != nil && x.C != nil {
			if x.C.Sign() < 0 {
				panic(targetPanic{v: iface{t: types.Typ[types.String], v: "square root of negative operand"}, pos: callerPos(fr)})
			}
			return setFloat(a[0], concF(cloneF(z.C).Sqrt(x.C)))
		}
		if fpMode(fr) {
			panic(abortPath{"unsupported", "big.Float.Sqrt in fp mode"})
		}
		zero := RealConstRat(new(big.Rat))
		xt := x.real()
		if fr.i.decide(realCmp("<", xt, zero)) {
			panic(targetPanic{v: iface{t: types.Typ[types.String], v: "square root of negative operand"}, pos: callerPos(fr)})
		}
		c := fr.i.ctx
		s := c.Fresh("fsqrt", RealSort)
		c.Constrain(realCmp("<=", zero, s))
		c.Constrain(realCmp("=", realBin("*", s, s), xt))
		return setFloat(a[0], bigFloat{Prec: z.Prec, T: s})
	})
	R("(*math/big.Float).Cmp", func(fr *frame, a []value) value {
		x, y := floatOf(a[0]), floatOf(a[1])
		if x.C != nil && y.C != nil {
			return x.C.Cmp(y.C)
		}
		if fpMode(fr) {
			return fpCmp(fpOf(x), fpOf(y))
		}
		lt := realCmp("<", x.real(), y.real())
		eq := realCmp("=", x.real(), y.real())
		return mkInt(Ite(lt, IntConst64(-1), Ite(eq, IntConst64(0), IntConst64(1))), types.Int)
	})
	R("(*math/big.Float).Sign", func(fr *frame, a []value) value {
		x := floatOf(a[0])
		if x.C != nil {
			return x.C.Sign()
		}
		if fpMode(fr) {
			panic(abortPath{"unsupported", "big.Float.Sign in fp mode"})
		}
		zero := RealConstRat(new(big.Rat))
		return mkInt(Ite(realCmp("<", x.real(), zero), IntConst64(-1), Ite(realCmp("=", x.real(), zero), IntConst64(0), IntConst64(1))), types.Int)
	})
	R("(*math/big.Float).Int", func(fr *frame, a []value) value {
		x := floatOf(a[0])
		var r *Term
		acc := int8(0)
		if x.C != nil {
			v, ac := x.C.Int(nil)
			r, acc = IntConst(v), int8(ac)
		} else {
			if fpMode(fr) {
				panic(abortPath{"unsupported", "big.Float.Int in fp mode"})
			}
			r = truncToInt(x.real()) // accuracy not modelled for symbolic values
		}
		var z value
		if p, ok := a[1].(*value); ok && p != nil {
			z = setBig(a[1], r)
		} else {
			z = bigCell(r)
		}
		return tuple{z, acc}
	})
	R("(*math/big.Float).Float64", func(fr *frame, a []value) value {
		x := floatOf(a[0])
		if x.C != nil {
			v, ac := x.C.Float64()
			return tuple{v, int8(ac)}
		}
		panic(abortPath{"unsupported", "big.Float.Float64 of a symbolic value"})
	})
	R("(*math/big.Float).IsInf", func(fr *frame, a []value) value {
		x := floatOf(a[0])
		return x.C != nil && x.C.IsInf()
	})
	R("(*math/big.Float).String", func(fr *frame, a []value) value {
		if x := floatOf(a[0]); x.C != nil {
			return x.C.String()
		}
		return opaqueStr
	})
	R("(*math/big.Float).Text", func(fr *frame, a []value) value {
		if x := floatOf(a[0]); x.C != nil {
			return x.C.Text(a[1].(uint8), int(asInt64(a[2])))
		}
		panic(abortPath{"unsupported", "big.Float.Text of a symbolic value (order price keys need concrete order volumes)"})
	})
	R("(*math/big.Float).Prec", func(fr *frame, a []value) value {
		f := floatOf(a[0])
		if f.C != nil {
			return f.C.Prec()
		}
		return f.Prec
	})

	// ---- the repository's own math package: Pow as an uninterpreted function
	// over the reals with the facts listed in DESIGN.md §2.5
	mp := e.ModulePath + "/math"
	R(mp+".Pow", func(fr *frame, a []value) value {
		if fpMode(fr) {
			panic(abortPath{"unsupported", "math.Pow in fp mode"})
		}
		z, w := floatOf(a[0]), floatOf(a[1])
		zero := RealConstRat(new(big.Rat))
		one := RealConstRat(big.NewRat(1, 1))
		zt, wt := z.real(), w.real()
		if fr.i.decide(realCmp("<", zt, zero)) {
			panic(targetPanic{v: iface{t: types.Typ[types.String], v: "Pow: negative base"}, pos: callerPos(fr)})
		}
		c := fr.i.ctx
		r := App("math.Pow", RealSort, zt, wt)
		c.RecordUF("math.Pow", r, zt, wt)
		wpos := realCmp("<", zero, wt)
		c.Constrain(Implies(realCmp("<", zero, zt), realCmp("<", zero, r)))
		c.Constrain(Implies(realCmp("=", zt, one), realCmp("=", r, one)))
		c.Constrain(Implies(And(realCmp("<", zero, zt), realCmp("<=", zt, one), wpos), realCmp("<=", r, one)))
		c.Constrain(Implies(And(realCmp("<=", one, zt), wpos), realCmp("<=", one, r)))
		c.Constrain(Implies(realCmp("=", wt, one), realCmp("=", r, zt)))
		c.Constrain(Implies(realCmp("=", wt, zero), realCmp("=", r, one)))
		c.Constrain(Implies(And(realCmp("=", zt, zero), wpos), realCmp("=", r, zero)))
		return newF(bigFloat{Prec: 100, T: r})
	})
}

// fpOf lifts a concrete float into the FloatingPoint representation.
func fpOf(f bigFloat) bigFloat {
	if f.C == nil {
		return f
	}
	if f.C.Prec() == 0 {
		return bigFloat{FP: true}
	}
	x, acc := f.C.Float64()
	if acc != big.Exact || f.C.Prec() > 53 {
		if f.C.Sign() == 0 {
			return bigFloat{Prec: f.C.Prec(), T: fpZero(f.C.Prec()), FP: true}
		}
		panic(abortPath{"unsupported", "fp mode: concrete big.Float not representable as float64"})
	}
	g := fpFromFloat64(x)
	if f.C.Prec() != 53 {
		g = fpSetPrec(g, f.C.Prec())
	}
	return g
}
