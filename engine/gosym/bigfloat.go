package gosym

// big.Float in the SMT FloatingPoint theory (filled in by registerBigFloat).

type bigFloat struct {
	Prec uint  // 0: not yet set (adopts the precision of the first operand)
	T    *Term // FloatingPoint(fpEb, Prec) term; nil when Prec == 0 (value +0)
}

const fpEb = 20

func newBigFloatZero() value { return bigFloat{} }

func registerBigFloat(e *Engine) {}
