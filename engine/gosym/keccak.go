package gosym

// Keccak hasher objects (sha3.NewLegacyKeccak256) and rlp.Encode into them,
// plus the abstract signature scheme used by the check harnesses.
//
// Hashing: the hasher accumulates a canonical rendering of what is written
// (concrete bytes, or the RLP-visible content of a value) and Sum appends the
// SHA-256 digest of that rendering: an injective-by-construction stand-in for
// keccak(rlp(x)).
//
// Abstract signatures (only when the 65 signature bytes are concrete and start
// with the marker 0xA5): sig = [0xA5, key id, hash(32), 0...]; Ecrecover(h, sig)
// yields the public key of `key id` when the embedded hash is h, and the public
// key of an unrelated key otherwise -- which is how ECDSA recovery behaves up
// to negligible probability.  Natively the harness really signs with fixed
// keys.  Any other signature: arbitrary outcome (see crypto.go).

import (
	"crypto/sha256"
	"go/types"
)

type keccakAcc struct{ buf []byte }

func abstractPub(id byte) []byte {
	pub := make([]byte, 65)
	pub[0] = 4
	for k := 1; k < 65; k++ {
		pub[k] = id
	}
	return pub
}

func registerKeccak(e *Engine) {
	const sha3pkg = "golang.org/x/crypto/sha3"
	e.Register(sha3pkg+".NewLegacyKeccak256", func(fr *frame, a []value) value {
		pkg := fr.i.eng.SSAPkgs[sha3pkg]
		if pkg == nil {
			panic(abortPath{"engine-error", "package sha3 not loaded"})
		}
		st := pkg.Pkg.Scope().Lookup("state")
		if st == nil {
			panic(abortPath{"engine-error", "sha3.state not found"})
		}
		var cell value = &keccakAcc{}
		return iface{t: types.NewPointer(st.Type()), v: &cell}
	})
	acc := func(v value) *keccakAcc {
		p, ok := v.(*value)
		if !ok || p == nil {
			panic(abortPath{"engine-error", "keccak receiver"})
		}
		k, ok := (*p).(*keccakAcc)
		if !ok {
			panic(abortPath{"unsupported", "sha3 state not created by NewLegacyKeccak256"})
		}
		return k
	}
	e.Register("(*"+sha3pkg+".state).Write", func(fr *frame, a []value) value {
		k := acc(a[0])
		k.buf = append(k.buf, []byte("w:"+dumpValue(a[1])+";")...)
		return tuple{len(a[1].([]value)), iface{}}
	})
	e.Register("(*"+sha3pkg+".state).Sum", func(fr *frame, a []value) value {
		k := acc(a[0])
		d := sha256.Sum256(k.buf)
		out, _ := a[1].([]value)
		for _, b := range d {
			out = append(out, b)
		}
		return out
	})
	e.Register(e.ModulePath+"/rlp.Encode", func(fr *frame, a []value) value {
		w := a[0].(iface)
		p, ok := w.v.(*value)
		if ok && p != nil {
			if k, ok := (*p).(*keccakAcc); ok {
				it := a[1].(iface)
				k.buf = append(k.buf, []byte("rlp:"+dumpValue(rlpSnapshot(it.t, it.v))+";")...)
				return iface{}
			}
		}
		panic(abortPath{"unsupported", "rlp.Encode into a writer other than a keccak hasher"})
	})
}

// abstractRecover implements the abstract signature scheme; ok=false when sig
// is not a concrete abstract signature.
func abstractRecover(hash, sig value) (pub []byte, ok bool) {
	h, ok1 := bytesOfValue(hash)
	s, ok2 := bytesOfValue(sig)
	if !ok1 || !ok2 || len(s) != 65 || len(h) != 32 || s[0] != 0xA5 {
		return nil, false
	}
	for k := 0; k < 32; k++ {
		if s[2+k] != h[k] {
			return abstractPub(0xEE), true
		}
	}
	return abstractPub(s[1]), true
}
