package gosym

// SMT term layer: a small hash-consing-free DAG with constant folding and an
// SMT-LIB2 printer.  Sorts: Bool, Int, Real, FloatingPoint(eb,sb).

import (
	"fmt"
	"math/big"
	"sort"
	"strings"
	"sync/atomic"
)

type SortKind int

const (
	SBool SortKind = iota
	SInt
	SReal
	SFP
	SBV
)

type Sort struct {
	K      SortKind
	Eb, Sb int
}

var (
	BoolSort = Sort{K: SBool}
	IntSort  = Sort{K: SInt}
	RealSort = Sort{K: SReal}
)

func FPSort(eb, sb int) Sort { return Sort{K: SFP, Eb: eb, Sb: sb} }
func BVSort(n int) Sort      { return Sort{K: SBV, Eb: n} }

func (s Sort) String() string {
	switch s.K {
	case SBool:
		return "Bool"
	case SInt:
		return "Int"
	case SReal:
		return "Real"
	case SFP:
		return fmt.Sprintf("(_ FloatingPoint %d %d)", s.Eb, s.Sb)
	case SBV:
		return fmt.Sprintf("(_ BitVec %d)", s.Eb)
	}
	return "?"
}

type Term struct {
	Op   string // "const","var","app" or an SMT operator
	S    Sort
	Args []*Term
	Val  *big.Int // Int const (also numerator for Real const)
	Den  *big.Int // Real const denominator (nil => 1)
	B    bool     // Bool const
	Name string   // var / uninterpreted function name / raw operator text
	id   int64
	size int32 // approximate DAG-unshared size, capped
	// range facts used to keep byte-assembly arithmetic linear:
	// hi != nil  =>  0 <= t <= hi;  tz = number of low bits known to be zero
	hi *big.Int
	tz int
	nn bool // known non-negative
}

func (t *Term) knownNN() bool {
	if t.IsConst() && t.S.K == SInt {
		return t.Val.Sign() >= 0
	}
	return t.nn || t.hi != nil
}

// WithNN records 0 <= t on a fresh term.
func (t *Term) WithNN() *Term {
	t.nn = true
	return t
}

func (t *Term) knownHi() *big.Int {
	if t.IsConst() && t.S.K == SInt && t.Val.Sign() >= 0 {
		return t.Val
	}
	return t.hi
}

func (t *Term) knownTz() int {
	if t.IsConst() && t.S.K == SInt {
		if t.Val.Sign() == 0 {
			return 1 << 20
		}
		return int(new(big.Int).Abs(t.Val).TrailingZeroBits())
	}
	return t.tz
}

// WithHi records 0 <= t <= hi on a fresh term (variables of unsigned kinds).
func (t *Term) WithHi(hi *big.Int) *Term {
	t.hi = hi
	return t
}

var termCounter int64

func newTerm(op string, s Sort, args ...*Term) *Term {
	t := &Term{Op: op, S: s, Args: args, id: atomic.AddInt64(&termCounter, 1)}
	sz := int32(1)
	for _, a := range args {
		sz += a.size
		if sz > 1<<20 {
			sz = 1 << 20
		}
	}
	t.size = sz
	return t
}

func (t *Term) IsConst() bool { return t.Op == "const" }

var (
	TrueT  = &Term{Op: "const", S: BoolSort, B: true, size: 1}
	FalseT = &Term{Op: "const", S: BoolSort, B: false, size: 1}
)

func BoolConst(b bool) *Term {
	if b {
		return TrueT
	}
	return FalseT
}

func IntConst(v *big.Int) *Term {
	return &Term{Op: "const", S: IntSort, Val: new(big.Int).Set(v), size: 1, id: atomic.AddInt64(&termCounter, 1)}
}
func IntConst64(v int64) *Term   { return IntConst(big.NewInt(v)) }
func IntConstU64(v uint64) *Term { return IntConst(new(big.Int).SetUint64(v)) }

func Var(name string, s Sort) *Term {
	t := newTerm("var", s)
	t.Name = name
	return t
}

// App builds an application of an uninterpreted function.
func App(name string, s Sort, args ...*Term) *Term {
	t := newTerm("app", s, args...)
	t.Name = name
	return t
}

// Raw builds an application of a built-in SMT operator given literally.
func Raw(op string, s Sort, args ...*Term) *Term {
	t := newTerm("raw", s, args...)
	t.Name = op
	return t
}

func isZero(t *Term) bool { return t.IsConst() && t.S.K == SInt && t.Val.Sign() == 0 }
func isOne(t *Term) bool  { return t.IsConst() && t.S.K == SInt && t.Val.Cmp(big.NewInt(1)) == 0 }

func Add(a, b *Term) *Term {
	if a.IsConst() && b.IsConst() {
		return IntConst(new(big.Int).Add(a.Val, b.Val))
	}
	if isZero(a) {
		return b
	}
	if isZero(b) {
		return a
	}
	// (x + c1) + c2 -> x + (c1+c2)
	if b.IsConst() && a.Op == "+" && len(a.Args) == 2 && a.Args[1].IsConst() {
		return Add(a.Args[0], IntConst(new(big.Int).Add(a.Args[1].Val, b.Val)))
	}
	t := newTerm("+", IntSort, a, b)
	if ha, hb := a.knownHi(), b.knownHi(); ha != nil && hb != nil {
		t.hi = new(big.Int).Add(ha, hb)
	}
	t.nn = a.knownNN() && b.knownNN()
	t.tz = a.knownTz()
	if z := b.knownTz(); z < t.tz {
		t.tz = z
	}
	if t.tz > 4096 {
		t.tz = 0
	}
	return t
}

func Sub(a, b *Term) *Term {
	if a.IsConst() && b.IsConst() {
		return IntConst(new(big.Int).Sub(a.Val, b.Val))
	}
	if isZero(b) {
		return a
	}
	if a == b {
		return IntConst64(0)
	}
	if b.IsConst() {
		return Add(a, IntConst(new(big.Int).Neg(b.Val)))
	}
	return newTerm("-", IntSort, a, b)
}

func Neg(a *Term) *Term {
	if a.IsConst() {
		return IntConst(new(big.Int).Neg(a.Val))
	}
	return newTerm("-", IntSort, a)
}

func Mul(a, b *Term) *Term {
	if a.IsConst() && b.IsConst() {
		return IntConst(new(big.Int).Mul(a.Val, b.Val))
	}
	if isZero(a) || isZero(b) {
		return IntConst64(0)
	}
	if isOne(a) {
		return b
	}
	if isOne(b) {
		return a
	}
	if a.IsConst() { // keep constants on the right for readability
		a, b = b, a
	}
	t := newTerm("*", IntSort, a, b)
	t.nn = a.knownNN() && b.knownNN()
	if b.IsConst() && b.Val.Sign() > 0 {
		if ha := a.knownHi(); ha != nil {
			t.hi = new(big.Int).Mul(ha, b.Val)
		}
		t.tz = a.knownTz() + b.knownTz()
		if t.tz > 4096 {
			t.tz = 0
		}
	}
	return t
}

// EDiv/EMod are SMT-LIB's Euclidean div/mod; the divisor must be non-zero
// (callers guard it).
func EDiv(a, b *Term) *Term {
	if a.IsConst() && b.IsConst() && b.Val.Sign() != 0 {
		q, _ := new(big.Int).DivMod(a.Val, b.Val, new(big.Int))
		return IntConst(q)
	}
	if isOne(b) {
		return a
	}
	t := newTerm("div", IntSort, a, b)
	if b.IsConst() && b.Val.Sign() > 0 {
		if ha := a.knownHi(); ha != nil {
			t.hi = new(big.Int).Div(ha, b.Val)
		}
		t.nn = a.knownNN()
	}
	return t
}

func EMod(a, b *Term) *Term {
	if a.IsConst() && b.IsConst() && b.Val.Sign() != 0 {
		_, m := new(big.Int).DivMod(a.Val, b.Val, new(big.Int))
		return IntConst(m)
	}
	if isOne(b) {
		return IntConst64(0)
	}
	if b.IsConst() && b.Val.Sign() > 0 {
		if ha := a.knownHi(); ha != nil && ha.Cmp(b.Val) < 0 {
			return a // already in range
		}
	}
	t := newTerm("mod", IntSort, a, b)
	if b.IsConst() && b.Val.Sign() > 0 {
		t.hi = new(big.Int).Sub(b.Val, big.NewInt(1))
	}
	return t
}

func Ite(c, a, b *Term) *Term {
	if c.IsConst() {
		if c.B {
			return a
		}
		return b
	}
	if a == b {
		return a
	}
	if a.IsConst() && b.IsConst() && a.S.K == SInt && a.Val.Cmp(b.Val) == 0 {
		return a
	}
	if a.S.K == SBool && a.IsConst() && b.IsConst() {
		if a.B && !b.B {
			return c
		}
		if !a.B && b.B {
			return Not(c)
		}
	}
	t := newTerm("ite", a.S, c, a, b)
	if a.S.K == SInt {
		t.nn = a.knownNN() && b.knownNN()
	}
	return t
}

func Not(a *Term) *Term {
	if a.IsConst() {
		return BoolConst(!a.B)
	}
	if a.Op == "not" {
		return a.Args[0]
	}
	return newTerm("not", BoolSort, a)
}

func And(ts ...*Term) *Term {
	var out []*Term
	for _, t := range ts {
		if t.IsConst() {
			if !t.B {
				return FalseT
			}
			continue
		}
		out = append(out, t)
	}
	switch len(out) {
	case 0:
		return TrueT
	case 1:
		return out[0]
	}
	return newTerm("and", BoolSort, out...)
}

func Or(ts ...*Term) *Term {
	var out []*Term
	for _, t := range ts {
		if t.IsConst() {
			if t.B {
				return TrueT
			}
			continue
		}
		out = append(out, t)
	}
	switch len(out) {
	case 0:
		return FalseT
	case 1:
		return out[0]
	}
	return newTerm("or", BoolSort, out...)
}

func Implies(a, b *Term) *Term { return Or(Not(a), b) }

func cmpConst(op string, a, b *Term) (*Term, bool) {
	if a.IsConst() && b.IsConst() && a.S.K == SInt {
		c := a.Val.Cmp(b.Val)
		switch op {
		case "=":
			return BoolConst(c == 0), true
		case "<":
			return BoolConst(c < 0), true
		case "<=":
			return BoolConst(c <= 0), true
		case ">":
			return BoolConst(c > 0), true
		case ">=":
			return BoolConst(c >= 0), true
		}
	}
	return nil, false
}

// iteCmp pushes a comparison with a constant through an ite whose arms are
// constants: the shape produced by big.Int.Cmp / Sign.
func iteCmp(op string, a, b *Term) (*Term, bool) {
	if a.Op == "ite" && b.IsConst() && a.S.K == SInt {
		x, okx := iteCmpArm(op, a.Args[1], b)
		y, oky := iteCmpArm(op, a.Args[2], b)
		if okx && oky {
			return Ite(a.Args[0], x, y), true
		}
	}
	return nil, false
}

func iteCmpArm(op string, a, b *Term) (*Term, bool) {
	if r, ok := cmpConst(op, a, b); ok {
		return r, true
	}
	return iteCmp(op, a, b)
}

func Eq(a, b *Term) *Term {
	if a == b {
		return TrueT
	}
	if a.S.K == SBool {
		if a.IsConst() {
			if a.B {
				return b
			}
			return Not(b)
		}
		if b.IsConst() {
			if b.B {
				return a
			}
			return Not(a)
		}
		return newTerm("=", BoolSort, a, b)
	}
	if r, ok := cmpConst("=", a, b); ok {
		return r
	}
	if r, ok := iteCmp("=", a, b); ok {
		return r
	}
	if a.IsConst() && !b.IsConst() {
		if r, ok := iteCmp("=", b, a); ok {
			return r
		}
	}
	return newTerm("=", BoolSort, a, b)
}

func Ne(a, b *Term) *Term { return Not(Eq(a, b)) }

func rel(op string, a, b *Term) *Term {
	if r, ok := cmpConst(op, a, b); ok {
		return r
	}
	if r, ok := iteCmp(op, a, b); ok {
		return r
	}
	if a == b {
		return BoolConst(op == "<=" || op == ">=")
	}
	if a.S.K == SInt {
		// sign facts: x known >= 0 compared with a constant <= 0 (and mirrored)
		if b.IsConst() && a.knownNN() {
			switch sg := b.Val.Sign(); {
			case sg <= 0 && op == ">=":
				return TrueT
			case sg <= 0 && op == "<":
				return FalseT
			case sg < 0 && op == ">":
				return TrueT
			case sg < 0 && op == "<=":
				return FalseT
			}
		}
		if a.IsConst() && b.knownNN() {
			switch sg := a.Val.Sign(); {
			case sg <= 0 && op == "<=":
				return TrueT
			case sg <= 0 && op == ">":
				return FalseT
			case sg < 0 && op == "<":
				return TrueT
			case sg < 0 && op == ">=":
				return FalseT
			}
		}
	}
	return newTerm(op, BoolSort, a, b)
}

func Lt(a, b *Term) *Term { return rel("<", a, b) }
func Le(a, b *Term) *Term { return rel("<=", a, b) }
func Gt(a, b *Term) *Term { return rel(">", a, b) }
func Ge(a, b *Term) *Term { return rel(">=", a, b) }

func Abs(a *Term) *Term {
	if a.IsConst() {
		return IntConst(new(big.Int).Abs(a.Val))
	}
	return Ite(Ge(a, IntConst64(0)), a, Neg(a))
}

var pow2cache = map[int]*big.Int{}

func pow2(n int) *big.Int {
	return new(big.Int).Lsh(big.NewInt(1), uint(n))
}

// ---------------------------------------------------------------- printing

func constString(t *Term) string {
	switch t.S.K {
	case SBool:
		if t.B {
			return "true"
		}
		return "false"
	case SInt:
		if t.Val.Sign() < 0 {
			return "(- " + new(big.Int).Neg(t.Val).String() + ")"
		}
		return t.Val.String()
	case SReal:
		n := t.Val
		s := new(big.Int).Abs(n).String() + ".0"
		if t.Den != nil {
			s = "(/ " + s + " " + t.Den.String() + ".0)"
		}
		if n.Sign() < 0 {
			s = "(- " + s + ")"
		}
		return s
	}
	return "?"
}

func smtSym(name string) string {
	ok := true
	for _, r := range name {
		if !(r >= 'a' && r <= 'z' || r >= 'A' && r <= 'Z' || r >= '0' && r <= '9' || r == '_' || r == '.' || r == '!' || r == '$') {
			ok = false
			break
		}
	}
	if ok && name != "" {
		return name
	}
	return "|" + strings.ReplaceAll(name, "|", "_") + "|"
}

// printer emits define-fun lines so that shared sub-DAGs are printed once.
type printer struct {
	defined map[*Term]string
	declVar map[string]Sort
	declFun map[string]string
	out     *strings.Builder
}

func newPrinter() *printer {
	return &printer{defined: map[*Term]string{}, declVar: map[string]Sort{}, declFun: map[string]string{}}
}

func (p *printer) ref(t *Term) string {
	switch t.Op {
	case "const":
		return constString(t)
	case "var":
		if _, ok := p.declVar[t.Name]; !ok {
			p.declVar[t.Name] = t.S
			fmt.Fprintf(p.out, "(declare-const %s %s)\n", smtSym(t.Name), t.S)
		}
		return smtSym(t.Name)
	}
	if n, ok := p.defined[t]; ok {
		return n
	}
	args := make([]string, len(t.Args))
	for i, a := range t.Args {
		args[i] = p.ref(a)
	}
	var body string
	switch t.Op {
	case "app":
		if _, ok := p.declFun[t.Name]; !ok {
			var as []string
			for _, a := range t.Args {
				as = append(as, a.S.String())
			}
			sig := fmt.Sprintf("(%s) %s", strings.Join(as, " "), t.S)
			p.declFun[t.Name] = sig
			fmt.Fprintf(p.out, "(declare-fun %s %s)\n", smtSym(t.Name), sig)
		}
		if len(args) == 0 {
			body = smtSym(t.Name)
		} else {
			body = "(" + smtSym(t.Name) + " " + strings.Join(args, " ") + ")"
		}
	case "raw":
		if len(args) == 0 {
			body = t.Name
		} else {
			body = "(" + t.Name + " " + strings.Join(args, " ") + ")"
		}
	default:
		body = "(" + t.Op + " " + strings.Join(args, " ") + ")"
	}
	if t.size <= 6 {
		return body
	}
	name := fmt.Sprintf("t!%d", t.id)
	p.defined[t] = name
	fmt.Fprintf(p.out, "(define-fun %s () %s %s)\n", name, t.S, body)
	return name
}

// String renders t fully inlined (debugging / samples); large terms are elided.
func (t *Term) String() string {
	var b strings.Builder
	t.write(&b, 0)
	return b.String()
}

func (t *Term) write(b *strings.Builder, depth int) {
	if b.Len() > 4000 {
		b.WriteString("…")
		return
	}
	switch t.Op {
	case "const":
		b.WriteString(constString(t))
	case "var":
		b.WriteString(t.Name)
	default:
		op := t.Op
		if op == "app" || op == "raw" {
			op = t.Name
		}
		b.WriteString("(" + op)
		for _, a := range t.Args {
			b.WriteString(" ")
			a.write(b, depth+1)
		}
		b.WriteString(")")
	}
}

// Vars collects the free variables of the given terms, sorted by name.
func Vars(ts ...*Term) []*Term {
	seen := map[*Term]bool{}
	byName := map[string]*Term{}
	var walk func(t *Term)
	walk = func(t *Term) {
		if seen[t] {
			return
		}
		seen[t] = true
		if t.Op == "var" {
			byName[t.Name] = t
		}
		for _, a := range t.Args {
			walk(a)
		}
	}
	for _, t := range ts {
		walk(t)
	}
	names := make([]string, 0, len(byName))
	for n := range byName {
		names = append(names, n)
	}
	sort.Strings(names)
	out := make([]*Term, len(names))
	for i, n := range names {
		out[i] = byName[n]
	}
	return out
}
