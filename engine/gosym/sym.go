package gosym

// Symbolic scalars and the operations on them.

import (
	"fmt"
	"go/token"
	"go/types"
	"math/big"
)

// symInt is a machine integer of basic kind K whose value is the SMT Int term
// T, with the invariant min(K) <= T <= max(K).
type symInt struct {
	T *Term
	K types.BasicKind
}

type symBool struct{ T *Term }

// bigInt is the value of a math/big.Int struct: a mathematical integer.
type bigInt struct{ T *Term }

// numStr is "the decimal rendering of T" as produced by (*big.Int).String.
type numStr struct{ T *Term }

// opaqueStr is a string whose content the engine does not track (formatting).
const opaqueStr = "<opaque>"

func kindBits(k types.BasicKind) (bits int, signed bool) {
	switch k {
	case types.Int, types.Int64:
		return 64, true
	case types.Int8:
		return 8, true
	case types.Int16:
		return 16, true
	case types.Int32:
		return 32, true
	case types.Uint, types.Uint64, types.Uintptr:
		return 64, false
	case types.Uint8:
		return 8, false
	case types.Uint16:
		return 16, false
	case types.Uint32:
		return 32, false
	}
	panic(fmt.Sprintf("kindBits: not an integer kind %v", k))
}

func kindRange(k types.BasicKind) (lo, hi *big.Int) {
	bits, signed := kindBits(k)
	if signed {
		hi = new(big.Int).Sub(pow2(bits-1), big.NewInt(1))
		lo = new(big.Int).Neg(pow2(bits - 1))
		return
	}
	return big.NewInt(0), new(big.Int).Sub(pow2(bits), big.NewInt(1))
}

// intKindOf reports the integer kind of a concrete value.
func intKindOf(v value) (types.BasicKind, bool) {
	switch v.(type) {
	case int:
		return types.Int, true
	case int8:
		return types.Int8, true
	case int16:
		return types.Int16, true
	case int32:
		return types.Int32, true
	case int64:
		return types.Int64, true
	case uint:
		return types.Uint, true
	case uint8:
		return types.Uint8, true
	case uint16:
		return types.Uint16, true
	case uint32:
		return types.Uint32, true
	case uint64:
		return types.Uint64, true
	case uintptr:
		return types.Uintptr, true
	}
	return 0, false
}

func isSymScalar(v value) bool {
	switch v.(type) {
	case symInt, symBool:
		return true
	}
	return false
}

// intTerm returns the Int term and kind of an integer value.
func intTerm(v value) (*Term, types.BasicKind) {
	switch v := v.(type) {
	case symInt:
		return v.T, v.K
	case int:
		return IntConst64(int64(v)), types.Int
	case int8:
		return IntConst64(int64(v)), types.Int8
	case int16:
		return IntConst64(int64(v)), types.Int16
	case int32:
		return IntConst64(int64(v)), types.Int32
	case int64:
		return IntConst64(v), types.Int64
	case uint:
		return IntConstU64(uint64(v)), types.Uint
	case uint8:
		return IntConstU64(uint64(v)), types.Uint8
	case uint16:
		return IntConstU64(uint64(v)), types.Uint16
	case uint32:
		return IntConstU64(uint64(v)), types.Uint32
	case uint64:
		return IntConstU64(v), types.Uint64
	case uintptr:
		return IntConstU64(uint64(v)), types.Uintptr
	}
	panic(abortPath{kind: "unsupported", msg: fmt.Sprintf("intTerm of %T", v)})
}

func boolTerm(v value) *Term {
	switch v := v.(type) {
	case bool:
		return BoolConst(v)
	case symBool:
		return v.T
	}
	panic(abortPath{kind: "unsupported", msg: fmt.Sprintf("boolTerm of %T", v)})
}

func mkBool(t *Term) value {
	if t.IsConst() {
		return t.B
	}
	return symBool{t}
}

// concreteInt builds the Go value of kind k holding v (which must be in range).
func concreteInt(v *big.Int, k types.BasicKind) value {
	switch k {
	case types.Int:
		return int(v.Int64())
	case types.Int8:
		return int8(v.Int64())
	case types.Int16:
		return int16(v.Int64())
	case types.Int32:
		return int32(v.Int64())
	case types.Int64:
		return v.Int64()
	case types.Uint:
		return uint(v.Uint64())
	case types.Uint8:
		return uint8(v.Uint64())
	case types.Uint16:
		return uint16(v.Uint64())
	case types.Uint32:
		return uint32(v.Uint64())
	case types.Uint64:
		return v.Uint64()
	case types.Uintptr:
		return uintptr(v.Uint64())
	}
	panic("concreteInt: bad kind")
}

// mkInt packages an in-range term as a value of kind k.
func mkInt(t *Term, k types.BasicKind) value {
	if t.IsConst() {
		return concreteInt(t.Val, k)
	}
	return symInt{t, k}
}

// wrapMod reduces an arbitrary integer term into the range of k (mod 2^N).
func wrapMod(t *Term, k types.BasicKind) *Term {
	bits, signed := kindBits(k)
	m := IntConst(pow2(bits))
	if h := t.knownHi(); h != nil {
		if _, kh := kindRange(k); h.Cmp(kh) <= 0 {
			return t // known to be in range
		}
	}
	if !signed {
		return EMod(t, m)
	}
	h := IntConst(pow2(bits - 1))
	return Sub(EMod(Add(t, h), m), h)
}

// wrap1 reduces a term known to be at most one modulus out of range.
func wrap1(t *Term, k types.BasicKind) *Term {
	if t.IsConst() {
		return wrapMod(t, k)
	}
	lo, hi := kindRange(k)
	if h := t.knownHi(); h != nil && h.Cmp(hi) <= 0 {
		return t // known to be in range
	}
	bits, _ := kindBits(k)
	m := IntConst(pow2(bits))
	return Ite(Gt(t, IntConst(hi)), Sub(t, m), Ite(Lt(t, IntConst(lo)), Add(t, m), t))
}

func bvOp(op string, x, y *Term, k types.BasicKind) *Term {
	bits, signed := kindBits(k)
	cv := fmt.Sprintf("(_ int2bv %d)", bits)
	bx := Raw(cv, BVSort(bits), x)
	by := Raw(cv, BVSort(bits), y)
	r := Raw("bv2nat", IntSort, Raw(op, BVSort(bits), bx, by))
	if signed {
		return wrapMod(r, k)
	}
	return r
}

func isMask(v *big.Int) (int, bool) {
	// v == 2^n - 1 ?
	w := new(big.Int).Add(v, big.NewInt(1))
	if w.Sign() > 0 && new(big.Int).And(w, v).Sign() == 0 {
		return w.BitLen() - 1, true
	}
	return 0, false
}

// symBinop implements binary operators when at least one operand is symbolic.
func symBinop(i *interpreter, op token.Token, x, y value) value {
	if _, ok := x.(symBool); ok || isBoolish(y) && isBoolish(x) {
		a, b := boolTerm(x), boolTerm(y)
		switch op {
		case token.EQL:
			return mkBool(Eq(a, b))
		case token.NEQ:
			return mkBool(Not(Eq(a, b)))
		case token.AND:
			return mkBool(And(a, b))
		case token.OR:
			return mkBool(Or(a, b))
		}
		panic(abortPath{kind: "unsupported", msg: "bool binop " + op.String()})
	}
	if op == token.SHL || op == token.SHR {
		if _, ok := y.(symInt); ok {
			panic(abortPath{kind: "unsupported", msg: "symbolic shift count"})
		}
		a, k := intTerm(x)
		u, ok := asUnsigned(y)
		if !ok {
			panic(runtimePanic("negative shift amount"))
		}
		n := asUint64(u)
		bits, _ := kindBits(k)
		if n >= uint64(bits) {
			if op == token.SHL {
				return concreteInt(big.NewInt(0), k)
			}
			_, signed := kindBits(k)
			if !signed {
				return concreteInt(big.NewInt(0), k)
			}
			return mkInt(Ite(Lt(a, IntConst64(0)), IntConst64(-1), IntConst64(0)), k)
		}
		p := IntConst(pow2(int(n)))
		if op == token.SHL {
			return mkInt(wrapMod(Mul(a, p), k), k)
		}
		return mkInt(EDiv(a, p), k) // floor division == arithmetic shift
	}
	a, k := intTerm(x)
	b, k2 := intTerm(y)
	_ = k2
	_, signed := kindBits(k)
	switch op {
	case token.ADD:
		return mkInt(wrap1(Add(a, b), k), k)
	case token.SUB:
		return mkInt(wrap1(Sub(a, b), k), k)
	case token.MUL:
		return mkInt(wrapMod(Mul(a, b), k), k)
	case token.QUO, token.REM:
		if i.decide(Eq(b, IntConst64(0))) {
			panic(runtimePanic("integer divide by zero"))
		}
		var q *Term
		if !signed {
			q = EDiv(a, b)
		} else {
			// truncated division from Euclidean division on magnitudes
			mag := EDiv(Abs(a), Abs(b))
			q = Ite(Eq(Ge(a, IntConst64(0)), Gt(b, IntConst64(0))), mag, Neg(mag))
		}
		if op == token.QUO {
			return mkInt(wrapMod(q, k), k) // MinInt / -1 wraps
		}
		return mkInt(Sub(a, Mul(q, b)), k)
	case token.AND:
		if b.IsConst() && b.Val.Sign() >= 0 {
			if n, ok := isMask(b.Val); ok && !signed {
				return mkInt(EMod(a, IntConst(pow2(n))), k)
			}
		}
		if a.IsConst() && a.Val.Sign() >= 0 {
			if n, ok := isMask(a.Val); ok && !signed {
				return mkInt(EMod(b, IntConst(pow2(n))), k)
			}
		}
		return mkInt(bvOp("bvand", a, b, k), k)
	case token.OR:
		// byte assembly (x | y<<8 ...): operands with disjoint bit ranges add up
		if ha := a.knownHi(); ha != nil && b.knownHi() != nil && b.knownTz() > 0 && ha.BitLen() <= b.knownTz() {
			return mkInt(Add(a, b), k)
		}
		if hb := b.knownHi(); hb != nil && a.knownHi() != nil && a.knownTz() > 0 && hb.BitLen() <= a.knownTz() {
			return mkInt(Add(a, b), k)
		}
		return mkInt(bvOp("bvor", a, b, k), k)
	case token.XOR:
		return mkInt(bvOp("bvxor", a, b, k), k)
	case token.AND_NOT:
		bits, _ := kindBits(k)
		cv := fmt.Sprintf("(_ int2bv %d)", bits)
		bs := BVSort(bits)
		r := Raw("bv2nat", IntSort, Raw("bvand", bs, Raw(cv, bs, a), Raw("bvnot", bs, Raw(cv, bs, b))))
		if signed {
			r = wrapMod(r, k)
		}
		return mkInt(r, k)
	case token.LSS:
		return mkBool(Lt(a, b))
	case token.LEQ:
		return mkBool(Le(a, b))
	case token.GTR:
		return mkBool(Gt(a, b))
	case token.GEQ:
		return mkBool(Ge(a, b))
	case token.EQL:
		return mkBool(Eq(a, b))
	case token.NEQ:
		return mkBool(Not(Eq(a, b)))
	}
	panic(abortPath{kind: "unsupported", msg: "symbolic binop " + op.String()})
}

func isBoolish(v value) bool {
	switch v.(type) {
	case bool, symBool:
		return true
	}
	return false
}

func symUnop(op token.Token, x value) value {
	switch x := x.(type) {
	case symBool:
		if op == token.NOT {
			return mkBool(Not(x.T))
		}
	case symInt:
		_, signed := kindBits(x.K)
		switch op {
		case token.SUB:
			return mkInt(wrapMod(Neg(x.T), x.K), x.K)
		case token.XOR:
			if signed {
				return mkInt(Sub(Neg(x.T), IntConst64(1)), x.K)
			}
			_, hi := kindRange(x.K)
			return mkInt(Sub(IntConst(hi), x.T), x.K)
		}
	}
	panic(abortPath{kind: "unsupported", msg: fmt.Sprintf("symbolic unop %s %T", op, x)})
}

// symConv converts a symbolic integer to another integer kind.
func symConv(dst types.Type, x symInt) value {
	b, ok := dst.Underlying().(*types.Basic)
	if !ok || b.Info()&types.IsInteger == 0 {
		panic(abortPath{kind: "unsupported", msg: fmt.Sprintf("conversion of symbolic integer to %s", dst)})
	}
	k := b.Kind()
	slo, shi := kindRange(x.K)
	dlo, dhi := kindRange(k)
	if dlo.Cmp(slo) <= 0 && dhi.Cmp(shi) >= 0 {
		return symInt{x.T, k}
	}
	return mkInt(wrapMod(x.T, k), k)
}

// eqTerm builds the term for Go's x == y at static type t.
func eqTerm(i *interpreter, t types.Type, x, y value) *Term {
	switch x := x.(type) {
	case symInt:
		b, _ := intTerm(y)
		return Eq(x.T, b)
	case symBool:
		return Eq(x.T, boolTerm(y))
	case bool:
		if yb, ok := y.(symBool); ok {
			return Eq(BoolConst(x), yb.T)
		}
		return BoolConst(x == y.(bool))
	case numStr:
		switch y := y.(type) {
		case numStr:
			return Eq(x.T, y.T)
		case string:
			if v, ok := new(big.Int).SetString(y, 10); ok && v.String() == y {
				return Eq(x.T, IntConst(v))
			}
			return FalseT
		}
	case string:
		if ys, ok := y.(numStr); ok {
			return eqTerm(i, t, ys, x)
		}
		return BoolConst(x == y.(string))
	case structure:
		ys := y.(structure)
		st := t.Underlying().(*types.Struct)
		var cs []*Term
		for k := 0; k < st.NumFields(); k++ {
			f := st.Field(k)
			if f.Name() == "_" {
				continue
			}
			c := eqTerm(i, f.Type(), x[k], ys[k])
			if c.IsConst() && !c.B {
				return FalseT
			}
			cs = append(cs, c)
		}
		return And(cs...)
	case array:
		ya := y.(array)
		et := t.Underlying().(*types.Array).Elem()
		var cs []*Term
		for k := range x {
			c := eqTerm(i, et, x[k], ya[k])
			if c.IsConst() && !c.B {
				return FalseT
			}
			cs = append(cs, c)
		}
		return And(cs...)
	case iface:
		yi := y.(iface)
		if !sameType(x.t, yi.t) {
			return FalseT
		}
		if x.t == nil {
			return TrueT
		}
		return eqTerm(i, x.t, x.v, yi.v)
	case bigInt:
		return Eq(x.T, y.(bigInt).T)
	case rlpBox:
		yb, ok := y.(rlpBox)
		if !ok || !types.Identical(x.T, yb.T) {
			return FalseT
		}
		return eqDeep(i, x.T, x.V, yb.V)
	case *value:
		return BoolConst(x == y.(*value))
	}
	if _, ok := y.(symInt); ok {
		a, _ := intTerm(x)
		return Eq(a, y.(symInt).T)
	}
	return BoolConst(equals(t, x, y))
}

// eqDeep is structural equality of two rlp snapshots (pointers are followed,
// slices compared element-wise): the equality of their encodings.
func eqDeep(i *interpreter, t types.Type, x, y value) *Term {
	if isBigIntType(t) {
		return Eq(x.(bigInt).T, y.(bigInt).T)
	}
	switch u := t.Underlying().(type) {
	case *types.Pointer:
		xp, yp := x.(*value), y.(*value)
		if xp == nil || yp == nil {
			return BoolConst(xp == nil && yp == nil)
		}
		return eqDeep(i, u.Elem(), *xp, *yp)
	case *types.Struct:
		xs, ys := x.(structure), y.(structure)
		var cs []*Term
		for _, k := range rlpVisible(u) {
			c := eqDeep(i, u.Field(k).Type(), xs[k], ys[k])
			if c.IsConst() && !c.B {
				return FalseT
			}
			cs = append(cs, c)
		}
		return And(cs...)
	case *types.Slice:
		xs, ys := x.([]value), y.([]value)
		// the pseudo-element of big.Int.Bytes() stands for a whole byte string
		if xb, ok := soleBigBytes(xs); ok {
			if yb, ok := soleBigBytes(ys); ok {
				return Eq(xb.T, yb.T)
			}
			return bigBytesEqConcrete(xb, ys)
		}
		if yb, ok := soleBigBytes(ys); ok {
			return bigBytesEqConcrete(yb, xs)
		}
		if len(xs) != len(ys) {
			return FalseT
		}
		var cs []*Term
		for k := range xs {
			c := eqDeep(i, u.Elem(), xs[k], ys[k])
			if c.IsConst() && !c.B {
				return FalseT
			}
			cs = append(cs, c)
		}
		return And(cs...)
	case *types.Array:
		xs, ys := x.(array), y.(array)
		var cs []*Term
		for k := range xs {
			c := eqDeep(i, u.Elem(), xs[k], ys[k])
			if c.IsConst() && !c.B {
				return FalseT
			}
			cs = append(cs, c)
		}
		return And(cs...)
	}
	return eqTerm(i, t, x, y)
}

func soleBigBytes(s []value) (bigBytes, bool) {
	if len(s) == 1 {
		b, ok := s[0].(bigBytes)
		return b, ok
	}
	return bigBytes{}, false
}

// bigBytesEqConcrete: the big-endian magnitude of a positive integer equals a
// concrete byte string iff the string is non-empty, has no leading zero and
// spells the integer.
func bigBytesEqConcrete(b bigBytes, s []value) *Term {
	raw, ok := bytesOfValue(s)
	if !ok {
		panic(abortPath{"unsupported", "equality of big.Int.Bytes() with partly symbolic bytes"})
	}
	if len(raw) == 0 || raw[0] == 0 {
		return FalseT
	}
	return Eq(b.T, IntConst(new(big.Int).SetBytes(raw)))
}
