package events

import (
	"github.com/MinterTeam/minter-go-node/coreV2/types"
	db "github.com/tendermint/tm-db"
)

func verifAddrE(b byte) types.Address {
	var a types.Address
	a[0], a[19] = b, b
	return a
}

func verifKeyE(b byte) types.Pubkey {
	var p types.Pubkey
	p[0], p[31] = b, b
	return p
}

// C24: a batch with one event of every compacted kind, with symbolic amounts,
// is committed at height 2 and loaded back, both by the same store and by a
// fresh store over the same database (a restarted node).  Config "prior" = k
// commits k earlier events with other addresses/keys at height 1 (so the
// compaction tables are non-empty, and addresses/keys are partly reused);
// "restart" = 1 reopens the store between the two commits.
func VerifHarness_C24_RoundTrip() {
	disk := db.NewMemDB()
	store := NewEventsStore(disk)
	prior := verifConfig("prior")
	for i := 0; i < prior; i++ {
		k := verifKeyE(byte(0x50 + i))
		store.AddEvent(&RewardEvent{Role: RoleDelegator.String(), Address: verifAddrE(byte(0x60 + i)), Amount: "7", ValidatorPubKey: k})
	}
	if prior > 0 {
		if err := store.CommitEvents(1); err != nil {
			panic(err)
		}
	}
	if verifConfig("restart") == 1 {
		store = NewEventsStore(disk)
	}
	a1, a2 := verifAddrE(1), verifAddrE(0x60) // a2 is reused from the prior batch when prior >= 1
	k1, k2 := verifKeyE(1), verifKeyE(0x50)
	amt := func(n string) string { return verifBigNN(n).String() }
	kp := k2
	in := Events{
		&RewardEvent{Role: RoleValidator.String(), Address: a1, Amount: amt("reward"), ValidatorPubKey: k1, ForCoin: 3},
		&SlashEvent{Address: a2, Amount: amt("slash"), Coin: 1, ValidatorPubKey: k2},
		&JailEvent{ValidatorPubKey: k1, JailedUntil: verifU64("jailedUntil")},
		&UnbondEvent{Address: a1, Amount: amt("unbond"), Coin: 2, ValidatorPubKey: &kp},
		&UnbondEvent{Address: a2, Amount: amt("unbond.nokey"), Coin: 0, ValidatorPubKey: nil}, // an unbond recorded without a validator key
		&UnlockEvent{Address: a2, Amount: amt("unlock"), Coin: 0},
		&StakeMoveEvent{Address: a1, Amount: amt("move"), Coin: 0, CandidatePubKey: k1, ToCandidatePubKey: k2},
		&StakeKickEvent{Address: a2, Amount: amt("kick"), Coin: 1, ValidatorPubKey: k1},
		&OrderExpiredEvent{ID: 9, Address: a1, Coin: 2, Amount: amt("expired")},
		&RemoveCandidateEvent{CandidatePubKey: k2},
		&UpdateNetworkEvent{Version: "v9"},
	}
	for _, e := range in {
		store.AddEvent(e)
	}
	if err := store.CommitEvents(2); err != nil {
		panic(err)
	}
	verifSame("same-store", in, store.LoadEvents(2))
	verifSame("fresh-store", in, NewEventsStore(disk).LoadEvents(2))
	if prior > 0 {
		old := NewEventsStore(disk).LoadEvents(1)
		verifAssert("C24:earlier-batch-still-loads", len(old) == prior)
		if len(old) == prior {
			r := old[0].(*RewardEvent)
			verifAssert("C24:earlier-batch-unchanged", r.Address == verifAddrE(0x60) && r.ValidatorPubKey == verifKeyE(0x50) && r.Amount == "7")
		}
	}
}

func verifSame(tag string, in, out Events) {
	verifAssert("C24:"+tag+":count", len(in) == len(out))
	if len(in) != len(out) {
		return
	}
	for i := range in {
		switch a := in[i].(type) {
		case *RewardEvent:
			b, ok := out[i].(*RewardEvent)
			verifAssert("C24:"+tag+":reward", ok && a.Role == b.Role && a.Address == b.Address && a.Amount == b.Amount && a.ValidatorPubKey == b.ValidatorPubKey && a.ForCoin == b.ForCoin)
		case *SlashEvent:
			b, ok := out[i].(*SlashEvent)
			verifAssert("C24:"+tag+":slash", ok && a.Address == b.Address && a.Amount == b.Amount && a.Coin == b.Coin && a.ValidatorPubKey == b.ValidatorPubKey)
		case *JailEvent:
			b, ok := out[i].(*JailEvent)
			verifAssert("C24:"+tag+":jail", ok && a.ValidatorPubKey == b.ValidatorPubKey && a.JailedUntil == b.JailedUntil)
		case *UnbondEvent:
			b, ok := out[i].(*UnbondEvent)
			if a.ValidatorPubKey == nil {
				verifAssert("C24:"+tag+":unbond-without-key", ok && a.Address == b.Address && a.Amount == b.Amount && a.Coin == b.Coin && b.ValidatorPubKey == nil)
			} else {
				verifAssert("C24:"+tag+":unbond", ok && a.Address == b.Address && a.Amount == b.Amount && a.Coin == b.Coin && b.ValidatorPubKey != nil && *a.ValidatorPubKey == *b.ValidatorPubKey)
			}
		case *UnlockEvent:
			b, ok := out[i].(*UnlockEvent)
			verifAssert("C24:"+tag+":unlock", ok && a.Address == b.Address && a.Amount == b.Amount && a.Coin == b.Coin)
		case *StakeMoveEvent:
			b, ok := out[i].(*StakeMoveEvent)
			verifAssert("C24:"+tag+":move", ok && a.Address == b.Address && a.Amount == b.Amount && a.Coin == b.Coin && a.CandidatePubKey == b.CandidatePubKey && a.ToCandidatePubKey == b.ToCandidatePubKey)
		case *StakeKickEvent:
			b, ok := out[i].(*StakeKickEvent)
			verifAssert("C24:"+tag+":kick", ok && a.Address == b.Address && a.Amount == b.Amount && a.Coin == b.Coin && a.ValidatorPubKey == b.ValidatorPubKey)
		case *OrderExpiredEvent:
			b, ok := out[i].(*OrderExpiredEvent)
			verifAssert("C24:"+tag+":expired", ok && a.ID == b.ID && a.Address == b.Address && a.Amount == b.Amount && a.Coin == b.Coin)
		case *RemoveCandidateEvent:
			b, ok := out[i].(*RemoveCandidateEvent)
			verifAssert("C24:"+tag+":remove", ok && a.CandidatePubKey == b.CandidatePubKey)
		case *UpdateNetworkEvent:
			b, ok := out[i].(*UpdateNetworkEvent)
			verifAssert("C24:"+tag+":network", ok && a.Version == b.Version)
		}
	}
}
