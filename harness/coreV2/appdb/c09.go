package appdb

import (
	"math/big"
	"time"

	abciTypes "github.com/tendermint/tendermint/abci/types"
	db "github.com/tendermint/tm-db"
)

// verifCommitBlock mirrors the app-DB block of Blockchain.Commit.
func verifCommitBlock(a *AppDB, hash []byte, height uint64) {
	a.SetLastBlockHash(hash)
	a.SetLastHeight(height)
	a.FlushValidators()
	a.SaveBlocksTime()
	a.SaveVersions()
	a.SaveEmission()
	a.SavePrice()
}

func verifHash(b byte) []byte {
	h := make([]byte, 32)
	h[0] = b
	return h
}

// verifAgree asserts that a fresh instance over the same disk answers every
// getter like the continuing instance.
func verifAgree(tag string, cont, fresh *AppDB) {
	verifAssert("C09:"+tag+":height", cont.GetLastHeight() == fresh.GetLastHeight())
	verifAssert("C09:"+tag+":start-height", cont.GetStartHeight() == fresh.GetStartHeight())
	ce, fe := cont.Emission(), fresh.Emission()
	if ce == nil || fe == nil {
		verifAssert("C09:"+tag+":emission-nil", ce == nil && fe == nil)
	} else {
		verifAssert("C09:"+tag+":emission", ce.Cmp(fe) == 0)
	}
	ct, c0, c1, cl, coff := cont.GetPrice()
	ft, f0, f1, fl, foff := fresh.GetPrice()
	verifAssert("C09:"+tag+":price-time", ct.UnixNano() == ft.UnixNano())
	if c0 == nil || f0 == nil {
		verifAssert("C09:"+tag+":price-nil", c0 == nil && f0 == nil)
	} else {
		verifAssert("C09:"+tag+":price-r0", c0.Cmp(f0) == 0)
		verifAssert("C09:"+tag+":price-r1", c1.Cmp(f1) == 0)
		verifAssert("C09:"+tag+":price-last", cl.Cmp(fl) == 0)
		verifAssert("C09:"+tag+":price-off", coff == foff)
	}
	cv, fv := cont.GetVersions(), fresh.GetVersions()
	verifAssert("C09:"+tag+":versions-len", len(cv) == len(fv))
	if len(cv) == len(fv) {
		for i := range cv {
			verifAssert("C09:"+tag+":version-name", cv[i].Name == fv[i].Name)
			verifAssert("C09:"+tag+":version-height", cv[i].Height == fv[i].Height)
		}
	}
	cs, cn := cont.GetLastBlockTimeDelta()
	fs, fn := fresh.GetLastBlockTimeDelta()
	verifAssert("C09:"+tag+":blocktime-sum", cs == fs)
	verifAssert("C09:"+tag+":blocktime-count", cn == fn)
	ch, fh := cont.GetLastBlockHash(), fresh.GetLastBlockHash()
	verifAssert("C09:"+tag+":hash-len", len(ch) == len(fh))
	if len(ch) == len(fh) && len(ch) > 0 {
		verifAssert("C09:"+tag+":hash", ch[0] == fh[0])
	}
}

// C09 (app DB): genesis block in process 1, then one more block committed
// either by the same process or by a restarted one (config "restart"), with a
// new emission and optionally a new price / version / validator set.  A third,
// fresh process over the same disk must agree with the continuing one.
func VerifHarness_C09_AppDB() {
	disk := db.NewMemDB()
	p1 := VerifNewAppDB(disk)
	// genesis (InitChain)
	p1.SetStartHeight(7) // heights are concrete: their 8-byte big-endian encoding is not the subject
	p1.AddVersion("v300", 0)
	e0 := verifBigPos("emission0")
	p1.SetEmission(e0)
	t0 := time.Unix(1700000000, 0).UTC() // block times are concrete here (C28 treats the time window)
	p1.SetPrice(t0, verifBigPos("r0"), verifBigPos("r1"), verifBigNN("last0"), verifBool("off0"))
	p1.SaveStartHeight()
	p1.SaveVersions()
	p1.SaveEmission()
	p1.SavePrice()
	p1.AddBlocksTime(t0)
	verifCommitBlock(p1, verifHash(1), 1)
	verifAgree("after-genesis", p1, VerifNewAppDB(disk))

	cur := p1
	if verifConfig("restart") == 1 {
		cur = VerifNewAppDB(disk) // the node was stopped and started again
	}
	// block 2
	cur.AddBlocksTime(time.Unix(1700000005, 0).UTC())
	e1 := verifBigPos("emission1")
	cur.SetEmission(e1)
	if verifConfig("newPrice") == 1 {
		t1 := time.Unix(1700090000, 0).UTC()
		cur.SetPrice(t1, verifBigPos("r0b"), verifBigPos("r1b"), verifBigNN("last1"), verifBool("off1"))
	}
	if verifConfig("newVersion") == 1 {
		cur.AddVersion("v310", 2)
	}
	if verifConfig("newValidators") == 1 {
		cur.SetValidators(abciTypes.ValidatorUpdates{{Power: int64(verifU64Range("power", 1, 1000000))}})
	}
	verifCommitBlock(cur, verifHash(2), 2)
	verifAssert("C09:continuing-emission", cur.Emission().Cmp(e1) == 0)
	verifAgree("after-block", cur, VerifNewAppDB(disk))
	_ = big.NewInt
}
