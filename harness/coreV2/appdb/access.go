package appdb

import db "github.com/tendermint/tm-db"

// VerifNewAppDB opens an AppDB over an existing key-value store (the overlay
// counterpart of NewAppDB, which opens a LevelDB directory).
func VerifNewAppDB(d db.DB) *AppDB { return &AppDB{db: d} }
