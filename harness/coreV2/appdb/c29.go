package appdb

import (
	"time"

	"github.com/MinterTeam/minter-go-node/tree"
	snapshottypes "github.com/cosmos/cosmos-sdk/snapshots/types"
	"github.com/cosmos/iavl"
	abciTypes "github.com/tendermint/tendermint/abci/types"
	db "github.com/tendermint/tm-db"
)

// VerifStore exposes the state tree an AppDB holds (set by SetState or created
// by Restore).
func VerifStore(a *AppDB) tree.MTree { return a.store }

// verifSame29 asserts that the restored instance answers every app-DB getter
// like the producing one.
func verifSame29(tag string, prod, rest *AppDB) {
	verifAssert("C29:"+tag+":height", prod.GetLastHeight() == rest.GetLastHeight())
	verifAssert("C29:"+tag+":start-height", prod.GetStartHeight() == rest.GetStartHeight())
	ph, rh := prod.GetLastBlockHash(), rest.GetLastBlockHash()
	verifAssert("C29:"+tag+":app-hash-len", len(ph) == len(rh))
	if len(ph) == len(rh) {
		same := true
		for i := range ph {
			same = same && ph[i] == rh[i]
		}
		verifAssert("C29:"+tag+":app-hash", same)
	}
	pe, re := prod.Emission(), rest.Emission()
	if pe == nil || re == nil {
		verifAssert("C29:"+tag+":emission-nil", pe == nil && re == nil)
	} else {
		verifAssert("C29:"+tag+":emission", pe.Cmp(re) == 0)
	}
	pt, p0, p1, pl, poff := prod.GetPrice()
	rt, r0, r1, rl, roff := rest.GetPrice()
	verifAssert("C29:"+tag+":price-time", pt.UnixNano() == rt.UnixNano())
	if p0 == nil || r0 == nil {
		verifAssert("C29:"+tag+":price-nil", p0 == nil && r0 == nil)
	} else {
		verifAssert("C29:"+tag+":price-r0", p0.Cmp(r0) == 0)
		verifAssert("C29:"+tag+":price-r1", p1.Cmp(r1) == 0)
		verifAssert("C29:"+tag+":price-last", pl.Cmp(rl) == 0)
		verifAssert("C29:"+tag+":price-off", poff == roff)
	}
	pv, rv := prod.GetVersions(), rest.GetVersions()
	verifAssert("C29:"+tag+":versions-len", len(pv) == len(rv))
	if len(pv) == len(rv) {
		for i := range pv {
			verifAssert("C29:"+tag+":version-name", pv[i].Name == rv[i].Name)
			verifAssert("C29:"+tag+":version-height", pv[i].Height == rv[i].Height)
		}
	}
	ps, pn := prod.GetLastBlockTimeDelta()
	rs, rn := rest.GetLastBlockTimeDelta()
	verifAssert("C29:"+tag+":blocktime-sum", ps == rs)
	verifAssert("C29:"+tag+":blocktime-count", pn == rn)
	pvals, rvals := prod.GetValidators(), rest.GetValidators()
	verifAssert("C29:"+tag+":validators-len", len(pvals) == len(rvals))
	if len(pvals) == len(rvals) {
		for i := range pvals {
			verifAssert("C29:"+tag+":validator-power", pvals[i].Power == rvals[i].Power)
		}
	}
}

// VerifDiffers names the first app-DB getter on which two instances disagree
// ("" if none); for harnesses of other packages.
func VerifDiffers(a, b *AppDB) string {
	if a.GetLastHeight() != b.GetLastHeight() {
		return "height"
	}
	if a.GetStartHeight() != b.GetStartHeight() {
		return "start-height"
	}
	if !verifSameBytes(a.GetLastBlockHash(), b.GetLastBlockHash()) {
		return "app-hash"
	}
	ae, be := a.Emission(), b.Emission()
	if (ae == nil) != (be == nil) || ae != nil && ae.Cmp(be) != 0 {
		return "emission"
	}
	at, a0, a1, al, aoff := a.GetPrice()
	bt, b0, b1, bl, boff := b.GetPrice()
	if at.UnixNano() != bt.UnixNano() || (a0 == nil) != (b0 == nil) || aoff != boff {
		return "price"
	}
	if a0 != nil && (a0.Cmp(b0) != 0 || a1.Cmp(b1) != 0 || al.Cmp(bl) != 0) {
		return "price"
	}
	av, bv := a.GetVersions(), b.GetVersions()
	if len(av) != len(bv) {
		return "versions"
	}
	for i := range av {
		if av[i].Name != bv[i].Name || av[i].Height != bv[i].Height {
			return "versions"
		}
	}
	as, an := a.GetLastBlockTimeDelta()
	bs, bn := b.GetLastBlockTimeDelta()
	if as != bs || an != bn {
		return "block-times"
	}
	avals, bvals := a.GetValidators(), b.GetValidators()
	if len(avals) != len(bvals) {
		return "validators"
	}
	for i := range avals {
		if avals[i].Power != bvals[i].Power {
			return "validators"
		}
	}
	return ""
}

type verifLeaf struct{ k, v []byte }

func verifLeaves(t tree.MTree) []verifLeaf {
	var out []verifLeaf
	t.GetLastImmutable().Iterate(func(k, v []byte) bool {
		out = append(out, verifLeaf{k, v})
		return false
	})
	return out
}

func verifSameBytes(a, b []byte) bool {
	if len(a) != len(b) {
		return false
	}
	same := true
	for i := range a {
		same = same && a[i] == b[i]
	}
	return same
}

// verifSameTree asserts that the restored state tree has the producing tree's
// version and leaves.
func verifSameTree(tag string, prod, rest tree.MTree) {
	if rest == nil {
		verifAssert("C29:"+tag+":state-tree-restored", false)
		return
	}
	verifAssert("C29:"+tag+":state-version", prod.Version() == rest.Version())
	pl, rl := verifLeaves(prod), verifLeaves(rest)
	verifAssert("C29:"+tag+":state-leaf-count", len(pl) == len(rl))
	if len(pl) == len(rl) {
		for i := range pl {
			verifAssert("C29:"+tag+":state-leaf-key", verifSameBytes(pl[i].k, rl[i].k))
			verifAssert("C29:"+tag+":state-leaf-value", verifSameBytes(pl[i].v, rl[i].v))
		}
	}
}

// C29 (app-DB and state-tree level of state sync).  A producing node runs
// genesis and one block with symbolic emission, price, validator power, app
// hash byte and leaf bytes, commits, and takes a snapshot of the committed
// height with the real AppDB.Snapshot — either the instance that executed the
// blocks or one restarted over the same disk (config restartBeforeSnapshot:
// snapshots of the same height must not depend on who takes them).  A fresh
// node (optionally already queried, as Tendermint's handshake and the API do
// before state sync completes) restores it with the real AppDB.Restore.  It
// must then answer every app-DB getter like the producer, hold the same state
// tree version and leaves, and keep agreeing after both execute one more block.
//
// The stream between the two is the model in gosym/snapshot.go (lossless
// in-order messages, empty byte slices arriving as nil; IAVL exporter/importer
// at the level of leaves plus value-less inner nodes).  Natively the same
// harness runs the real zlib/protobuf/chunk pipeline and the real IAVL.
func VerifHarness_C29_SnapshotRestore() {
	disk, stateDisk := db.NewMemDB(), db.NewMemDB()
	p := VerifNewAppDB(disk)
	start := uint64(verifConfig("startHeight"))
	p.SetStartHeight(start)
	p.AddVersion("v300", start)
	p.SetEmission(verifBigPos("emission0"))
	t0 := time.Unix(1700000000, 0).UTC()
	p.SetPrice(t0, verifBigPos("r0"), verifBigPos("r1"), verifBigNN("last0"), verifBool("off0"))
	p.SaveStartHeight()
	p.SaveVersions()
	p.SaveEmission()
	p.SavePrice()
	p.AddBlocksTime(t0)
	if verifConfig("validators") == 1 {
		p.SetValidators(abciTypes.ValidatorUpdates{{Power: int64(verifU64Range("power", 1, 1000000))}})
	}

	st, err := tree.NewMutableTree(0, stateDisk, 1024, start)
	if err != nil {
		panic(err)
	}
	mt := st.(interface{ MutableTree() *iavl.MutableTree }).MutableTree()
	leaves := int(verifConfig("leaves"))
	for i := 0; i < leaves; i++ {
		val := []byte{verifByte("leaf"), byte(i)}
		if i == 1 {
			val = []byte{} // an empty value is a legal leaf (protobuf turns it into nil)
		}
		mt.Set([]byte{'k', byte(i)}, val)
	}
	if _, _, err := st.Commit(); err != nil {
		panic(err)
	}
	p.SetState(st)
	verifCommitBlock(p, verifHash(verifByte("hash1")), uint64(st.Version()))

	if verifConfig("secondBlock") == 1 {
		p.AddBlocksTime(time.Unix(1700000005, 0).UTC())
		p.SetEmission(verifBigPos("emission1"))
		p.AddVersion("v310", start+1)
		mt.Set([]byte{'k', 0}, []byte{verifByte("leaf2")})
		mt.Set([]byte{'m'}, []byte{9})
		if _, _, err := st.Commit(); err != nil {
			panic(err)
		}
		verifCommitBlock(p, verifHash(verifByte("hash2")), uint64(st.Version()))
	}
	height := uint64(st.Version())

	src := p
	if verifConfig("restartBeforeSnapshot") == 1 {
		src = VerifNewAppDB(disk)
		src.SetState(st)
	}
	src.WG.Add(1)
	chunks, err := src.Snapshot(height, snapshottypes.CurrentFormat)
	verifAssert("C29:snapshot-of-the-committed-height-succeeds", err == nil)
	if err != nil {
		return
	}

	fresh := VerifNewAppDB(db.NewMemDB())
	fresh.SetStateDB(db.NewMemDB())
	if verifConfig("queriedBeforeRestore") == 1 {
		fresh.GetStartHeight()
		fresh.GetLastHeight()
		fresh.GetLastBlockHash()
		fresh.GetVersions()
		fresh.Emission()
		fresh.GetPrice()
		fresh.GetValidators()
		fresh.GetLastBlockTimeDelta()
	}
	err = fresh.Restore(height, snapshottypes.CurrentFormat, chunks, nil)
	verifAssert("C29:restore-of-an-honest-snapshot-succeeds", err == nil)
	if err != nil {
		return
	}
	verifSame29("after-restore", p, fresh)
	verifSameTree("after-restore", st, VerifStore(fresh))

	// both nodes execute the next block
	t2 := time.Unix(1700000011, 0).UTC()
	e2 := verifBigPos("emission2")
	for _, n := range []*AppDB{p, fresh} {
		n.AddBlocksTime(t2)
		n.SetEmission(e2)
		n.AddVersion("v320", start+5)
		verifCommitBlock(n, verifHash(7), height+1)
	}
	verifSame29("after-next-block", p, fresh)
	verifSame29("restarted-after-next-block", p, VerifNewAppDB(fresh.db))
}
