package appdb

import (
	"math/big"
	"time"

	db "github.com/tendermint/tm-db"
)

// C28 (price rule): one UpdatePriceFix step from a stored previous price.  The
// reward derived from the price (350 * p^(1/4) BIP; Pow is an uninterpreted
// function) is `full`.  Rule: a change of -10% or worse, rounded down to a whole
// percent, switches the validators' share to zero; while switched off it
// recovers by 10 BIP per update up to the price-derived level; otherwise the
// reward is the price-derived one.  The percentage is decided by integers:
// floor(100*(new-old)/old) <= -10  <=>  100*r1*R0 < 91*r0*R1.
//
// Bound (config): the previous reserves are concrete and one of the new
// reserves is concrete (products of four symbolic integers otherwise).
func VerifHarness_C28_UpdatePrice() {
	a := VerifNewAppDB(db.NewMemDB())
	e18 := new(big.Int).Exp(big.NewInt(10), big.NewInt(18), nil)
	R0 := new(big.Int).Mul(big.NewInt(3500000000), e18) // BIP reserve
	R1 := new(big.Int).Mul(big.NewInt(10000000), e18)   // USDT reserve
	last0 := verifBigNN("last")
	off0 := verifConfig("off") == 1
	a.SetPrice(time.Unix(1704000000, 0).UTC(), R0, R1, new(big.Int).Set(last0), off0)
	var r0, r1 *big.Int
	if verifConfig("symbolicR0") == 1 {
		r0, r1 = verifBigPos("r0"), new(big.Int).Set(R1)
	} else {
		r0, r1 = new(big.Int).Set(R0), verifBigPos("r1")
	}
	reward, full := a.UpdatePriceFix(time.Unix(1704090000, 0).UTC(), r0, r1)
	_, _, _, lastStored, offStored := a.GetPrice()

	lhs := new(big.Int).Mul(new(big.Int).Mul(big.NewInt(100), r1), R0)
	rhs := new(big.Int).Mul(new(big.Int).Mul(big.NewInt(91), r0), R1)
	dropped := lhs.Cmp(rhs) < 0
	ten := new(big.Int).Mul(big.NewInt(10), e18)
	verifAssert("C28:full-reward-nonneg", full.Sign() >= 0)
	if dropped {
		verifAssert("C28:drop-of-10-percent-or-worse-zeroes-the-validators-share", reward.Sign() == 0 && offStored && lastStored.Sign() == 0)
		return
	}
	if off0 && last0.Cmp(full) < 0 {
		want := new(big.Int).Add(last0, ten)
		if want.Cmp(full) >= 0 {
			verifAssert("C28:recovery-reaches-the-price-level", reward.Cmp(full) == 0 && !offStored)
		} else {
			verifAssert("C28:recovery-by-10-BIP-per-update", reward.Cmp(want) == 0 && offStored)
		}
		verifAssert("C28:stored-reward-is-the-returned-one", lastStored.Cmp(reward) == 0)
		return
	}
	verifAssert("C28:reward-is-the-price-derived-one", reward.Cmp(full) == 0 && !offStored && lastStored.Cmp(full) == 0)
}
