package transaction

import (
	"math/big"

	"github.com/MinterTeam/minter-go-node/coreV2/types"
)

// AddLiquidity / RemoveLiquidity on pool (bancor coin 1, base) whose pool token
// (coin 3) is held by B and the zero address (config: pool10 lp10 concretePool
// concreteLP).  C13/C01/C02/C03/C05/C06/C07, C22 (pool tokens are minted only
// by adding liquidity, to the provider, in proportion).
func VerifHarness_Liquidity_Deliver() {
	u := verifUniverse()
	gasCoin := types.CoinID(verifConfig("gasCoin"))
	signer := 1
	sender := u.A
	if verifConfig("kind") == 1 {
		signer, sender = 2, u.B // B holds the pool tokens
	}
	nonce0 := u.st.Accounts.GetNonce(sender)
	r1, r0, _ := u.st.Swapper().SwapPool(verifCoinBancor, 0)
	k0 := new(big.Int).Mul(r1, r0)
	supply0 := new(big.Int).Set(u.st.Coins.GetCoin(verifCoinLP).Volume())
	who := verifWho(u, sender)
	var tx *Transaction
	var v0, max1, liq, min0, min1 *big.Int
	switch verifConfig("kind") {
	case 0:
		v0, max1 = verifBigNN("volume0"), verifBigNN("maxVolume1")
		tx = verifTx(nonce0+1, verifGasPrice(), gasCoin, TypeAddLiquidity, AddLiquidityDataV260{Coin0: verifCoinBancor, Coin1: 0, Volume0: v0, MaximumVolume1: max1})
	case 1:
		liq, min0, min1 = verifBigNN("liquidity"), verifBigNN("minVolume0"), verifBigNN("minVolume1")
		tx = verifTx(nonce0+1, verifGasPrice(), gasCoin, TypeRemoveLiquidity, RemoveLiquidityV240{Coin0: verifCoinBancor, Coin1: 0, Liquidity: liq, MinimumVolume0: min0, MinimumVolume1: min1})
	}
	resp, before, after := verifDeliverChecked(u, tx, verifSignBy(tx, signer), sender, nonce0)
	if resp.Code != 0 {
		return
	}
	n1, n0, _ := u.st.Swapper().SwapPool(verifCoinBancor, 0)
	supply1 := u.st.Coins.GetCoin(verifCoinLP).Volume()
	d := func(c types.CoinID) *big.Int {
		n := "bal." + who + "." + c.String()
		return new(big.Int).Sub(after.get(n), before.get(n))
	}
	tagInt := func(key string) *big.Int {
		sv, _ := verifTag(resp.Tags, key)
		v, ok := new(big.Int).SetString(sv, 10)
		verifAssert("C15:tag-present:"+key, ok)
		if !ok {
			return big.NewInt(0)
		}
		return v
	}
	fee := tagInt("tx.commission_amount")
	// what the sender's balances moved by, net of the fee paid in the gas coin
	moved := func(c types.CoinID) *big.Int {
		v := d(c)
		if c == gasCoin {
			v = new(big.Int).Add(v, fee)
		}
		return v
	}
	verifAssert("C13:reserves-stay-positive", n1.Sign() > 0 && n0.Sign() > 0)
	switch verifConfig("kind") {
	case 0:
		in1 := new(big.Int).Neg(moved(verifCoinBancor))
		in0 := new(big.Int).Neg(moved(0))
		minted := new(big.Int).Sub(supply1, supply0)
		verifAssert("C13:added-exactly-the-requested-volume", in1.Cmp(v0) == 0)
		verifAssert("C13:paid-at-most-the-maximum", in0.Cmp(max1) <= 0 && in0.Sign() >= 0)
		verifAssert("C15:volume-tag-equals-debit", tagInt("tx.volume1").Cmp(in0) == 0)
		verifAssert("C22:pool-tokens-minted-to-the-provider", minted.Sign() > 0 && d(verifCoinLP).Cmp(minted) == 0 && tagInt("tx.liquidity").Cmp(minted) == 0)
		if gasCoin.IsBaseCoin() {
			// (with the fee converted through this very pool the reserves at the
			// moment of minting are not the ones observed before the transaction)
			verifAssert("C13:minted-share-not-above-contribution-coin1", new(big.Int).Mul(minted, r1).Cmp(new(big.Int).Mul(in1, supply0)) <= 0)
			verifAssert("C13:minted-share-not-above-contribution-base", new(big.Int).Mul(minted, r0).Cmp(new(big.Int).Mul(new(big.Int).Add(in0, big.NewInt(1)), supply0)) <= 0)
			verifAssert("C13:k-nondecreasing", new(big.Int).Mul(n1, n0).Cmp(k0) >= 0)
		}
	case 1:
		out1 := moved(verifCoinBancor)
		out0 := moved(0)
		burned := new(big.Int).Sub(supply0, supply1)
		verifAssert("C13:burned-exactly-the-requested-liquidity", burned.Cmp(liq) == 0 && new(big.Int).Neg(d(verifCoinLP)).Cmp(liq) == 0)
		verifAssert("C13:received-at-least-the-minimums", out1.Cmp(min0) >= 0 && out0.Cmp(min1) >= 0)
		verifAssert("C15:volume-tags-equal-credits", tagInt("tx.volume0").Cmp(out1) == 0 && tagInt("tx.volume1").Cmp(out0) == 0)
		if gasCoin.IsBaseCoin() {
			verifAssert("C13:payout-not-above-share-coin1", new(big.Int).Mul(out1, supply0).Cmp(new(big.Int).Mul(liq, r1)) <= 0)
			verifAssert("C13:payout-not-above-share-base", new(big.Int).Mul(out0, supply0).Cmp(new(big.Int).Mul(liq, r0)) <= 0)
		}
	}
}
