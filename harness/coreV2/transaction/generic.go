package transaction

import (
	"math/big"

	"github.com/MinterTeam/minter-go-node/coreV2/types"
)

// A cell is one named quantity of the universe; a snapshot lists them all.
type verifCell struct {
	name string
	v    *big.Int
	// classification used by the frame conditions
	owner *types.Address // non-nil: a holding of this account
	coin  types.CoinID
	kind  string // balance, volume, reserve, pool, rewardpool, slashed, nonce, ...
}

type verifSnap struct {
	cells  []verifCell
	ledger map[types.CoinID]*big.Int
}

func verifWho(u *verifU, a types.Address) string {
	switch a {
	case u.A:
		return "A"
	case u.B:
		return "B"
	case u.C:
		return "C"
	case types.Address{}:
		return "zero"
	case u.burn:
		return "burn"
	}
	return "other"
}

func verifSnapshot(u *verifU) *verifSnap {
	s := &verifSnap{ledger: map[types.CoinID]*big.Int{}}
	add := func(name, kind string, owner *types.Address, coin types.CoinID, v *big.Int) {
		s.cells = append(s.cells, verifCell{name: name, v: new(big.Int).Set(v), owner: owner, coin: coin, kind: kind})
	}
	for i := range u.addrs {
		a := u.addrs[i]
		for _, c := range u.coins {
			add("bal."+verifWho(u, a)+"."+c.String(), "balance", &u.addrs[i], c, u.st.Accounts.GetBalance(a, c))
		}
		add("nonce."+verifWho(u, a), "nonce", &u.addrs[i], 0, new(big.Int).SetUint64(u.st.Accounts.GetNonce(a)))
	}
	for _, c := range u.coins {
		if c.IsBaseCoin() {
			continue
		}
		m := u.st.Coins.GetCoin(c)
		if m == nil {
			// a coin id that a transaction of this harness may create
			add("volume."+c.String(), "volume", nil, c, big.NewInt(0))
			add("reserve."+c.String(), "reserve", nil, c, big.NewInt(0))
			add("maxsupply."+c.String(), "maxsupply", nil, c, big.NewInt(0))
			continue
		}
		add("volume."+c.String(), "volume", nil, c, m.Volume())
		add("reserve."+c.String(), "reserve", nil, c, m.Reserve())
		add("maxsupply."+c.String(), "maxsupply", nil, c, m.MaxSupply())
	}
	for i, c0 := range u.coins {
		for _, c1 := range u.coins[i+1:] {
			if u.st.Swapper().GetSwapper(c1, c0).Exists() {
				r1, r0, _ := u.st.Swapper().SwapPool(c1, c0)
				add("pool."+c1.String()+"-"+c0.String()+"."+c1.String(), "pool", nil, c1, r1)
				add("pool."+c1.String()+"-"+c0.String()+"."+c0.String(), "pool", nil, c0, r0)
			}
		}
	}
	// staking extension: every account's base-coin stake and waitlist entry with
	// every candidate of the universe (a rejected transaction must leave them alone)
	for k, pk := range u.cands {
		for i := range u.addrs {
			a := u.addrs[i]
			who := verifWho(u, a) + "." + string(rune('P'+k))
			v := u.st.Candidates.GetStakeValueOfAddress(pk, a, 0)
			if v == nil {
				v = big.NewInt(0)
			}
			add("stake."+who, "stake", &u.addrs[i], 0, v)
			w := big.NewInt(0)
			if it := u.st.Waitlist.Get(a, pk, 0); it != nil {
				w = it.Value
			}
			add("waitlist."+who, "waitlist", &u.addrs[i], 0, w)
		}
	}
	add("rewardpool", "rewardpool", nil, 0, u.pool)
	add("slashed", "slashed", nil, 0, u.st.App.GetTotalSlashed())
	for _, c := range u.coins {
		s.ledger[c] = verifLedger(u, c)
	}
	return s
}

func (s *verifSnap) get(name string) *big.Int {
	for _, c := range s.cells {
		if c.name == name {
			return c.v
		}
	}
	return nil
}

// verifConservation: C01 for one step that does not change the emission.
func verifConservation(u *verifU, before, after *verifSnap) {
	for _, c := range u.coins {
		delta := new(big.Int).Sub(after.ledger[c], before.ledger[c])
		if c.IsBaseCoin() {
			verifAssert("C01:base-ledger-unchanged", delta.Sign() == 0)
		} else {
			dv := new(big.Int).Sub(after.get("volume."+c.String()), before.get("volume."+c.String()))
			verifAssert("C01:ledger-moves-with-volume:"+c.String(), delta.Cmp(dv) == 0)
		}
	}
}

// verifNonNegative: C02 after a step.
func verifNonNegative(u *verifU, after *verifSnap) {
	for _, c := range after.cells {
		switch c.kind {
		case "pool":
			verifAssert("C02:pool-reserve>0:"+c.name, c.v.Sign() > 0)
		case "maxsupply", "nonce":
		default:
			verifAssert("C02:nonneg:"+c.name, c.v.Sign() >= 0)
		}
	}
	for _, c := range u.coins {
		if !c.IsBaseCoin() {
			verifAssert("C02:volume<=max:"+c.String(), after.get("volume."+c.String()).Cmp(after.get("maxsupply."+c.String())) <= 0)
		}
	}
}

// verifFailedFrame: C03 for a rejected delivery.  payer pays the fee in
// gasCoin; everything else must be untouched, except the conversion of that
// fee (gas coin volume/reserve, or the (gasCoin, base) pool).
func verifFailedFrame(u *verifU, before, after *verifSnap, payer types.Address, gasCoin types.CoinID) {
	// converting the fee through a pool with resting orders fills them: their
	// owners are paid in the coin they buy and may get a closing remainder back
	// in the coin they sell (both are increases); that is part of "converting
	// the fee through a pool"
	orderOwner := func(owner types.Address, coin types.CoinID) bool {
		if gasCoin.IsBaseCoin() {
			return false
		}
		for _, o := range u.orders {
			if o.owner == owner && (o.c0 == coin || o.c1 == coin) && (o.c0 == gasCoin || o.c1 == gasCoin) {
				return true
			}
		}
		return false
	}
	for i, c := range before.cells {
		a := after.cells[i]
		same := c.v.Cmp(a.v) == 0
		switch {
		case c.kind == "balance" && c.owner != nil && *c.owner == payer && c.coin == gasCoin && orderOwner(payer, gasCoin):
			// the payer's own order may be filled by its own fee: net change not separable here
			verifAssert("C03:fee<=balance", new(big.Int).Sub(c.v, a.v).Cmp(c.v) <= 0)
		case c.kind == "balance" && c.owner != nil && orderOwner(*c.owner, c.coin) && !(*c.owner == payer && c.coin == gasCoin):
			verifAssert("C03:order-owner-not-debited:"+c.name, a.v.Cmp(c.v) >= 0)
		case c.kind == "balance" && c.owner != nil && *c.owner == payer && c.coin == gasCoin:
			dec := new(big.Int).Sub(c.v, a.v)
			verifAssert("C03:fee>=0", dec.Sign() >= 0)
			verifAssert("C03:fee<=balance", dec.Cmp(c.v) <= 0)
		case c.kind == "balance" && c.owner != nil && *c.owner == u.burn && c.coin == gasCoin && !gasCoin.IsBaseCoin():
			// converting the fee through the pool burns 0.1% of it
			verifAssert("C03:burn-not-decreased", a.v.Cmp(c.v) >= 0)
		case c.kind == "rewardpool":
			verifAssert("C03:rewardpool-not-decreased", a.v.Cmp(c.v) >= 0)
		case (c.kind == "volume" || c.kind == "reserve") && c.coin == gasCoin:
			verifAssert("C03:gas-coin-"+c.kind+"-not-increased", a.v.Cmp(c.v) <= 0)
		case c.kind == "pool" && !gasCoin.IsBaseCoin() && (c.name == "pool."+gasCoin.String()+"-0."+gasCoin.String() || c.name == "pool."+gasCoin.String()+"-0.0"):
			// the commission pool may move
		default:
			verifAssert("C03:frame:"+c.name, same)
		}
	}
}

// verifOthersNotDebited: C05 for an accepted delivery signed by sender only.
func verifOthersNotDebited(u *verifU, before, after *verifSnap, sender types.Address) {
	for i, c := range before.cells {
		if c.kind == "balance" && c.owner != nil && *c.owner != sender {
			verifAssert("C05:not-debited:"+c.name, after.cells[i].v.Cmp(c.v) >= 0)
		}
		if c.kind == "nonce" && c.owner != nil && *c.owner != sender {
			verifAssert("C05:nonce-untouched:"+c.name, after.cells[i].v.Cmp(c.v) == 0)
		}
	}
}

// verifDeliverChecked runs CheckTx then DeliverTx of raw (signed by sender,
// who pays in gasCoin) and asserts the cross-cutting properties.
// typePrice is the price-table entry of the transaction's type (nil: skip C27).
func verifDeliverChecked(u *verifU, tx *Transaction, raw []byte, sender types.Address, nonce0 uint64) (Response, *verifSnap, *verifSnap) {
	return verifDeliverCheckedFee(u, tx, raw, sender, nonce0, tx.GasCoin)
}

// verifDeliverCheckedFee: feeCoin is the coin the fee is paid in (the gas coin,
// or the coin being sold for the sell-all types).
func verifDeliverCheckedFee(u *verifU, tx *Transaction, raw []byte, sender types.Address, nonce0 uint64, feeCoin types.CoinID) (Response, *verifSnap, *verifSnap) {
	before := verifSnapshot(u)
	rc := u.check(raw)
	mid := verifSnapshot(u)
	for i, c := range before.cells {
		verifAssert("C06:checktx-does-not-mutate:"+c.name, mid.cells[i].v.Cmp(c.v) == 0)
	}
	resp, panicked, pv := u.deliverCatch(raw)
	if panicked {
		// C06: what CheckTx accepted must be deliverable; the panic itself is
		// re-raised so that the path still ends as a panic (reported by C07)
		verifAssert("C06:accepted-by-checktx=>deliver-does-not-panic", rc.Code != 0)
		panic(pv)
	}
	after := verifSnapshot(u)
	verifAssert("C06:check-ok<=>deliver-ok", (rc.Code == 0) == (resp.Code == 0))
	verifConservation(u, before, after)
	verifNonNegative(u, after)
	n1 := u.st.Accounts.GetNonce(sender)
	if resp.Code == 0 {
		verifAssert("C03:ok=>nonce+1", n1 == nonce0+1)
		verifAssert("C04:accept=>nonce=last+1", tx.Nonce == nonce0+1)
		verifAssert("C04:accept=>chain", tx.ChainID == types.CurrentChainID)
		verifOthersNotDebited(u, before, after, sender)
	} else {
		verifAssert("C03:fail=>nonce-unchanged", n1 == nonce0)
		verifFailedFrame(u, before, after, sender, feeCoin)
	}
	verifNote("code", uint64(resp.Code))
	return resp, before, after
}
