package transaction

import (
	"math/big"

	"github.com/MinterTeam/minter-go-node/coreV2/types"
)

// Remaining transaction types under the cross-cutting properties (C01 C02 C03
// C05 C06 C07) with their own gates.  Config "kind":
//   0 Multisend (two items)            4 DeclareCandidacy
//   1 BurnToken (token 2 / bancor 1)   5 EditCandidate
//   2 SetHaltBlock vote (C20)          6 CreateMultisig
//   3 VoteUpdate (C20)                 7 EditMultisig
//   8 EditCandidateCommission
func VerifHarness_Misc_Deliver() {
	u := verifUniverse()
	P, _, _ := verifStaking(u) // candidates P, Q owned by B
	st := u.st
	kind := verifConfig("kind")
	signer := 1 + verifConfig("signerB")
	sender := verifAddr(signer)
	who := verifWho(u, sender)
	nonce0 := st.Accounts.GetNonce(sender)
	var tx *Transaction
	switch kind {
	case 0:
		c1, c2 := types.CoinID(verifConfig("coin")), types.CoinID(0)
		v1, v2 := verifBigNN("value1"), verifBigNN("value2")
		tx = verifTx(nonce0+1, verifGasPrice(), 0, TypeMultisend, MultisendData{List: []MultisendDataItem{{Coin: c1, To: u.B, Value: v1}, {Coin: c2, To: types.Address{}, Value: v2}}})
		resp, before, after := verifDeliverChecked(u, tx, verifSignBy(tx, 1), u.A, nonce0)
		if resp.Code == 0 {
			d := func(w string, c types.CoinID) *big.Int {
				n := "bal." + w + "." + c.String()
				return new(big.Int).Sub(after.get(n), before.get(n))
			}
			fee := new(big.Int).Sub(after.get("rewardpool"), before.get("rewardpool"))
			verifAssert("C05:multisend-credits-each-recipient-exactly", d("zero", c2).Cmp(v2) == 0 && (c1 == c2 || d("B", c1).Cmp(v1) == 0))
			paid0 := new(big.Int).Neg(d("A", 0))
			want0 := new(big.Int).Add(fee, v2)
			if c1 == 0 {
				want0.Add(want0, v1)
			} else {
				verifAssert("C05:multisend-debits-exactly:coin", new(big.Int).Neg(d("A", c1)).Cmp(v1) == 0)
			}
			verifAssert("C05:multisend-debits-exactly:base", paid0.Cmp(want0) == 0)
			p := st.Commission.GetCommissions()
			verifAssert("C27:fee=gasprice*typeprice", fee.Cmp(new(big.Int).Mul(big.NewInt(int64(tx.GasPrice)), new(big.Int).Add(p.MultisendBase, p.MultisendDelta))) == 0)
		}
		return
	case 1:
		coin := types.CoinID(verifConfig("coin"))
		v := verifBigNN("value")
		tx = verifTx(nonce0+1, verifGasPrice(), 0, TypeBurnToken, BurnTokenDataV260{Coin: coin, Value: v})
		vol0 := verifVolume(u, coin)
		resp, before, after := verifDeliverChecked(u, tx, verifSignBy(tx, signer), sender, nonce0)
		if resp.Code == 0 {
			verifAssert("C22:burn-only-a-burnable-token", coin == verifCoinToken)
			verifAssert("C22:burned=value", new(big.Int).Sub(vol0, after.get("volume."+coin.String())).Cmp(v) == 0)
			n := "bal." + who + "." + coin.String()
			verifAssert("C05:burn-debits-the-burner-exactly", new(big.Int).Sub(before.get(n), after.get(n)).Cmp(v) == 0)
		}
		return
	case 2, 3:
		// votes of candidate P (owner B) for one of three concrete heights
		h := []uint64{u.height - 1, u.height, u.height + 10}[verifChoice("voteHeight", 3)]
		pre := verifConfig("preVoted") >= 1
		if kind == 2 {
			if pre {
				st.Halts.AddHaltBlock(h, P)
			}
			tx = verifTx(nonce0+1, verifGasPrice(), 0, TypeSetHaltBlock, SetHaltBlockData{PubKey: P, Height: h})
		} else {
			if pre {
				st.Updates.AddVote(h, P, "v340")
			}
			tx = verifTx(nonce0+1, verifGasPrice(), 0, TypeVoteUpdate, VoteUpdateDataV230{Version: "v340", PubKey: P, Height: h})
		}
		if verifConfig("preVoted") == 2 {
			u.reopen()
			st = u.st
		}
		resp, _, _ := verifDeliverChecked(u, tx, verifSignBy(tx, signer), sender, nonce0)
		if resp.Code == 0 {
			verifAssert("C20:vote-only-by-the-candidate-owner", signer == 2)
			verifAssert("C20:vote-not-for-a-past-height", h >= u.height)
			verifAssert("C20:vote-counted-once-per-validator", !pre)
			if kind == 2 {
				verifAssert("C20:vote-recorded", st.Halts.IsHaltExists(h, P))
			} else {
				verifAssert("C20:vote-recorded", st.Updates.IsVoteExists(h, P))
			}
		}
		return
	case 4:
		key := verifPub(9)
		if verifConfig("existingKey") == 1 {
			key = P
		}
		stake := verifBigNN("stake")
		tx = verifTx(nonce0+1, verifGasPrice(), 0, TypeDeclareCandidacy, DeclareCandidacyData{Address: sender, PubKey: key, Commission: verifU32("commission"), Coin: 0, Stake: stake})
		u.cands = append(u.cands, verifPub(9))
		resp, before, after := verifDeliverChecked(u, tx, verifSignBy(tx, signer), sender, nonce0)
		if resp.Code == 0 {
			verifAssert("C17:declared-key-was-free", key != P)
			fee := new(big.Int).Sub(after.get("rewardpool"), before.get("rewardpool"))
			n := "bal." + who + ".0"
			verifAssert("C05:declaration-debits-exactly-stake-plus-fee", new(big.Int).Sub(before.get(n), after.get(n)).Cmp(new(big.Int).Add(stake, fee)) == 0)
			c := st.Candidates.GetCandidate(key)
			verifAssert("C17:new-candidate-starts-offline-owned-by-the-declarer", c != nil && c.Status == 1 && c.OwnerAddress == sender)
		}
		return
	case 5:
		tx = verifTx(nonce0+1, verifGasPrice(), 0, TypeEditCandidate, EditCandidateData{PubKey: P, RewardAddress: u.A, OwnerAddress: u.A, ControlAddress: u.A})
		resp, _, _ := verifDeliverChecked(u, tx, verifSignBy(tx, signer), sender, nonce0)
		c := st.Candidates.GetCandidate(P)
		if resp.Code == 0 {
			verifAssert("C05:candidate-edited-only-by-its-owner", signer == 2)
			verifAssert("C05:candidate-has-the-new-addresses", c.OwnerAddress == u.A && c.RewardAddress == u.A && c.ControlAddress == u.A)
		} else {
			verifAssert("C03:rejected-edit-leaves-the-candidate", c.OwnerAddress == u.B)
		}
		return
	case 8:
		// EditCandidateCommission of candidate R whose owner is B and whose control
		// address is A: the commission is an owner-only setting (config
		// "ownedByA": R is owned by A)
		R := verifPub(5)
		own := u.B
		if verifConfig("ownedByA") == 1 {
			own = u.A
		}
		st.Candidates.Create(own, own, u.A, R, 10, 1, 0)
		u.cands = append(u.cands, R)
		newCom := verifU32("newCommission")
		tx = verifTx(nonce0+1, verifGasPrice(), 0, TypeEditCandidateCommission, EditCandidateCommission{PubKey: R, Commission: newCom})
		resp, _, _ := verifDeliverChecked(u, tx, verifSignBy(tx, 1), u.A, nonce0)
		c := st.Candidates.GetCandidate(R)
		if resp.Code == 0 {
			verifAssert("C05:commission-changed-only-by-the-candidate-owner", own == u.A)
			verifAssert("C05:commission-is-the-requested-one", c.Commission == newCom)
		} else {
			verifAssert("C03:rejected-edit-leaves-the-commission", c.Commission == 10)
		}
		return
	case 6, 7:
		w := []uint32{verifU32("w1"), verifU32("w2")}
		th := verifU32("threshold")
		addrs := []types.Address{u.A, u.B}
		if verifConfig("dupOwners") == 1 {
			addrs = []types.Address{u.A, u.A}
		}
		if kind == 6 {
			tx = verifTx(nonce0+1, verifGasPrice(), 0, TypeCreateMultisig, CreateMultisigData{Threshold: th, Weights: w, Addresses: addrs})
		} else {
			tx = verifTx(nonce0+1, verifGasPrice(), 0, TypeEditMultisig, EditMultisigData{Threshold: th, Weights: w, Addresses: addrs})
		}
		resp, _, _ := verifDeliverChecked(u, tx, verifSignBy(tx, signer), sender, nonce0)
		if resp.Code == 0 {
			verifAssert("C05:multisig-owners-distinct", verifConfig("dupOwners") != 1)
			verifAssert("C05:multisig-weights-bounded", w[0] <= 1023 && w[1] <= 1023)
			// (a threshold above the sum of weights is accepted by the code: such a
			// wallet can never spend, which no listed property forbids)
			verifAssert("C05:edit-multisig-only-on-a-multisig-account", kind == 6)
		}
		return
	}
}
