package transaction

import (
	"math/big"

	"github.com/MinterTeam/minter-go-node/coreV2/types"
)

// C04/C26: the same signed bytes are delivered twice (as a careless or
// byzantine proposer may do).  Whatever the first delivery returned, the
// second one must be rejected and must not cost the payer anything.
func VerifHarness_Send_Twice() {
	u := verifUniverse()
	gasCoin := types.CoinID(verifConfig("gasCoin"))
	coin := types.CoinID(verifConfig("coin"))
	nonce0 := verifU64Range("nonce0", 0, 1<<62)
	u.st.Accounts.SetNonce(u.A, nonce0)
	data := SendData{Coin: coin, To: u.B, Value: verifBigNN("value")}
	tx := verifTx(nonce0+1, verifU32Range("gasPrice", 1, 1000000), gasCoin, TypeSend, data)
	raw := verifSignBy(tx, 1)

	r1 := u.deliver(raw)
	mid := verifSnapshot(u)
	r2 := u.deliver(raw)
	after := verifSnapshot(u)

	if r1.Code == 0 {
		verifAssert("C04:replay-after-success-rejected", r2.Code != 0)
	}
	verifAssert("C26:second-delivery-rejected", r2.Code != 0)
	// the two cases carry different labels: a charge after a *failed* first
	// delivery is the recorded finding F4; a charge after a successful one
	// would be a different defect
	tag := "C26:after-success:"
	if r1.Code != 0 {
		tag = "C26:after-failure:"
	}
	for i, c := range mid.cells {
		if c.kind == "balance" && c.owner != nil && *c.owner == u.A {
			verifAssert(tag+"second-delivery-free:"+c.name, after.cells[i].v.Cmp(c.v) == 0)
		}
	}
	verifAssert(tag+"reward-pool-unchanged-by-second", after.get("rewardpool").Cmp(mid.get("rewardpool")) == 0)
	verifNote("codes", uint64(r1.Code), uint64(r2.Code))
	_ = big.NewInt
}
