package transaction

import (
	"math/big"

	"github.com/MinterTeam/minter-go-node/coreV2/code"
	"github.com/MinterTeam/minter-go-node/coreV2/types"
)

// verifOrders places resting limit orders in pool (token 2, base) and commits
// the state (orders can be cancelled only once they are on disk).  Order 1
// belongs to A: it buys 0.02 token for 0.01 base coin, a price better for a
// taker than the pool's, so any token sold into the pool (a commission paid in
// the token, for instance) fills it first.  Order 2 belongs to B, far from the
// pool price.
func verifOrders(u *verifU) {
	e15 := new(big.Int).Exp(big.NewInt(10), big.NewInt(15), nil)
	mk := func(owner types.Address, buy, sell int64) {
		wb, ws := new(big.Int).Mul(big.NewInt(buy), e15), new(big.Int).Mul(big.NewInt(sell), e15)
		id, _ := u.st.SwapV2.PairAddOrder(verifCoinToken, 0, new(big.Int).Set(wb), new(big.Int).Set(ws), owner, 1)
		u.orders = append(u.orders, verifOrderRef{id: id, c0: verifCoinToken, c1: 0, owner: owner, wantBuy: wb, esc: ws})
	}
	mk(u.A, 20, 10)
	mk(u.B, 900000, 1000)
	if _, err := u.st.Commit(); err != nil {
		panic(err)
	}
}

// RemoveLimitOrder (C14 owner gate and exact refund, C06, C05, C07): A or B
// (config "signerB") cancels order 1 (A's) or 2 (B's) (config "order"), paying
// the fee in the base coin or in the token (config "gasCoin"; in the token the
// commission swap goes through the order's own pool and may consume the order).
func VerifHarness_RemoveOrder_Deliver() {
	u := verifUniverse() // config: pool20=1 concretePool=1 concretePrices=1
	verifOrders(u)
	gasCoin := types.CoinID(verifConfig("gasCoin"))
	signer := 1 + verifConfig("signerB")
	sender := verifAddr(signer)
	ord := u.orders[verifConfig("order")]
	nonce0 := u.st.Accounts.GetNonce(sender)
	tx := verifTx(nonce0+1, verifGasPrice(), gasCoin, TypeRemoveLimitOrder, RemoveLimitOrderData{ID: ord.id})
	_, esc0 := u.st.SwapV2.VerifOrder(ord.c0, ord.c1, ord.id)
	resp, before, after := verifDeliverChecked(u, tx, verifSignBy(tx, signer), sender, nonce0)
	_, esc1 := u.st.SwapV2.VerifOrder(ord.c0, ord.c1, ord.id)
	if resp.Code != 0 {
		if gasCoin.IsBaseCoin() {
			verifAssert("C14:rejected-cancellation-leaves-the-order", esc1.Cmp(esc0) == 0)
		}
		return
	}
	verifAssert("C14:cancel-only-by-the-owner", sender == ord.owner)
	verifAssert("C14:cancelled-order-is-gone", esc1.Sign() == 0)
	who := "A"
	if signer == 2 {
		who = "B"
	}
	if gasCoin.IsBaseCoin() {
		fee := new(big.Int).Sub(after.get("rewardpool"), before.get("rewardpool"))
		got := new(big.Int).Sub(after.get("bal."+who+".0"), before.get("bal."+who+".0"))
		verifAssert("C14:cancel-returns-exactly-the-unfilled-amount", new(big.Int).Add(got, fee).Cmp(esc0) == 0)
	}
	// only once
	tx2 := verifTx(nonce0+2, verifGasPrice(), gasCoin, TypeRemoveLimitOrder, RemoveLimitOrderData{ID: ord.id})
	r2 := u.deliver(verifSignBy(tx2, signer))
	verifAssert("C14:cancel-only-once", r2.Code == code.OrderNotExists || r2.Code != 0)
}

// AddLimitOrder by A in pool (token 2, base): sell base for token or token for
// base (config "sellToken"), volumes symbolic, fee in the base coin.  On
// acceptance the sender is debited exactly the volume to sell (plus the fee
// when it is the same coin), the escrow of the new order is exactly that
// volume and both volumes reach the minimum order volume (the price window of
// the placement check is not asserted here).
func VerifHarness_AddOrder_Deliver() {
	u := verifUniverse() // config: pool20=1 concretePool=1 concretePrices=1
	nonce0 := u.st.Accounts.GetNonce(u.A)
	sell, buy := types.CoinID(0), verifCoinToken
	if verifConfig("sellToken") == 1 {
		sell, buy = verifCoinToken, 0
	}
	vs, vb := verifBigNN("valueToSell"), verifBigNN("valueToBuy")
	tx := verifTx(nonce0+1, verifGasPrice(), 0, TypeAddLimitOrder, AddLimitOrderData{CoinToSell: sell, ValueToSell: vs, CoinToBuy: buy, ValueToBuy: vb})
	// the id the order will get, registered with the ledger beforehand (its escrow reads 0 until it exists)
	u.orders = append(u.orders, verifOrderRef{id: 1, c0: buy, c1: sell, owner: u.A})
	resp, before, after := verifDeliverChecked(u, tx, verifSignBy(tx, 1), u.A, nonce0)
	if resp.Code != 0 {
		return
	}
	wantBuy, esc := u.st.SwapV2.VerifOrder(buy, sell, 1)
	verifAssert("C14:escrow-is-exactly-the-volume-to-sell", esc.Cmp(vs) == 0 && wantBuy.Cmp(vb) == 0)
	min := big.NewInt(10000000000)
	verifAssert("C14:new-order-not-below-minimum-volume", vs.Cmp(min) >= 0 && vb.Cmp(min) >= 0)
	fee := new(big.Int).Sub(after.get("rewardpool"), before.get("rewardpool"))
	n := "bal.A." + sell.String()
	paid := new(big.Int).Sub(before.get(n), after.get(n))
	want := new(big.Int).Set(vs)
	if sell.IsBaseCoin() {
		want.Add(want, fee)
	}
	verifAssert("C05:order-placement-debits-exactly", paid.Cmp(want) == 0)
}
