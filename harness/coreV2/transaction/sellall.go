package transaction

import (
	"math/big"

	"github.com/MinterTeam/minter-go-node/coreV2/types"
)

// SellAllSwapPool of the token (coin 2) for the base coin through pool (2,0).
// The fee is paid in the coin being sold, whatever the envelope's GasCoin
// field says (config "gasCoinField").  C03 frame on rejection (fee capped at
// the balance of the *commission* coin), C15: an accepted sell-all sells
// exactly balance - fee and credits at least the requested minimum.
func VerifHarness_SellAllPool_Deliver() {
	u := verifUniverse() // config: pool20=1 concretePool=1
	field := types.CoinID(verifConfig("gasCoinField"))
	nonce0 := u.st.Accounts.GetNonce(u.A)
	route := []types.CoinID{verifCoinToken, 0}
	if verifConfig("route5") == 1 {
		// cyclic route that comes back to the coin being sold before the last hop:
		// the commission pool (2,0) is then used at hop 4, not hop 1
		route = []types.CoinID{verifCoinToken, 4, 5, verifCoinToken, 0}
	}
	if verifConfig("route5") == 2 {
		// a route that comes back to a pool it has already used (token-X twice,
		// with other hops in between): must be rejected as a duplicate
		route = []types.CoinID{verifCoinToken, 4, 5, verifCoinToken, 4}
	}
	data := SellAllSwapPoolDataV260{Coins: route, MinimumValueToBuy: verifBigNN("minBuy")}
	tx := verifTx(nonce0+1, verifGasPrice(), field, TypeSellAllSwapPool, data)
	raw := verifSignBy(tx, 1)
	resp, before, after := verifDeliverCheckedFee(u, tx, raw, u.A, nonce0, verifCoinToken)
	if resp.Code == 0 {
		verifAssert("C15:sell-all-leaves-nothing", after.get("bal.A.2").Sign() == 0)
		last := route[len(route)-1]
		got := new(big.Int).Sub(after.get("bal.A."+last.String()), before.get("bal.A."+last.String()))
		verifAssert("C15:credited>=minimum", got.Cmp(data.MinimumValueToBuy) >= 0)
		for i := 0; i+1 < len(route); i++ {
			for j := i + 1; j+1 < len(route); j++ {
				same := (route[i] == route[j] && route[i+1] == route[j+1]) || (route[i] == route[j+1] && route[i+1] == route[j])
				verifAssert("C15:no-pool-twice-in-an-accepted-route", !same)
			}
		}
	}
}
