package transaction

import (
	"math/big"

	"github.com/MinterTeam/minter-go-node/coreV2/types"
)

// C07/C03: a delivery that is rejected for a state reason (here: the sender
// cannot afford the amount sent) while the fee is payable in a custom coin
// through its swap pool.  The failure fee is min(fee, balance) converted
// through the pool; no balance, however small, may crash the node.
func VerifHarness_C07_FailedTxPoolFee() {
	u := verifUniverse() // config: pool10=1
	gasCoin := verifCoinBancor
	nonce0 := u.st.Accounts.GetNonce(u.A)
	have := u.st.Accounts.GetBalance(u.A, 0)
	data := SendData{Coin: 0, To: u.B, Value: new(big.Int).Add(have, big.NewInt(1))}
	tx := verifTx(nonce0+1, verifGasPrice(), gasCoin, TypeSend, data)
	raw := verifSignBy(tx, 1)
	before := verifSnapshot(u)
	resp := u.deliver(raw)
	after := verifSnapshot(u)
	verifAssert("C03:rejected", resp.Code != 0)
	verifConservation(u, before, after)
	verifNonNegative(u, after)
	verifFailedFrame(u, before, after, u.A, types.CoinID(gasCoin))
	verifAssert("C03:fail=>nonce-unchanged", u.st.Accounts.GetNonce(u.A) == nonce0)
	verifNote("code", uint64(resp.Code))
}

func verifGasPrice() uint32 {
	if verifConfig("concretePrices") == 1 && verifConfig("symGasPrice") != 1 {
		return 1
	}
	return verifU32Range("gasPrice", 1, 1000000)
}
