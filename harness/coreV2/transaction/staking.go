package transaction

import (
	"math/big"

	"github.com/MinterTeam/minter-go-node/coreV2/code"
	"github.com/MinterTeam/minter-go-node/coreV2/types"
)

func verifPub(b byte) types.Pubkey {
	var p types.Pubkey
	p[0], p[31] = b, b
	return p
}

// verifStaking adds candidates P and Q (owner B, online) to the universe.  A
// holds a base-coin stake in P (and, config "stakeCoin1", a stake in the bancor
// coin), B holds the candidates' own stakes.  Config "waitlisted" puts A's
// holding on the waitlist of P instead.
func verifStaking(u *verifU) (P, Q types.Pubkey, stakeA *big.Int) {
	P, Q = verifPub(1), verifPub(2)
	st := u.st
	st.Candidates.Create(u.B, u.B, u.B, P, 10, 1, 0)
	st.Candidates.Create(u.B, u.B, u.B, Q, 10, 1, 0)
	st.Candidates.SetOnline(P)
	st.Candidates.SetOnline(Q)
	e18 := new(big.Int).Exp(big.NewInt(10), big.NewInt(18), nil)
	own := new(big.Int).Mul(big.NewInt(5000), e18)
	st.Candidates.Delegate(u.B, P, 0, own, own)
	st.Candidates.Delegate(u.B, Q, 0, own, own)
	stakeA = verifBigPos("stake.A.P")
	if verifConfig("waitlisted") == 2 {
		// both: a live stake and a waitlist entry for the same candidate and coin
		st.Candidates.Delegate(u.A, P, 0, stakeA, stakeA)
		st.Waitlist.AddWaitList(u.A, P, 0, verifBigPos("waitlist.A.P"))
	} else if verifConfig("waitlisted") == 1 {
		st.Waitlist.AddWaitList(u.A, P, 0, stakeA)
	} else {
		st.Candidates.Delegate(u.A, P, 0, stakeA, stakeA)
	}
	st.Candidates.RecalculateStakesV2(1)
	u.cands = []types.Pubkey{P, Q}
	u.ffHeights = []uint64{u.height + types.GetUnbondPeriod(), u.height + types.GetMovePeriod()}
	return
}

func verifFrozenAt(u *verifU, h uint64, owner types.Address) (total *big.Int, n int, moveTo uint32, cand *types.Pubkey) {
	total = big.NewInt(0)
	for _, it := range u.st.FrozenFunds.VerifLive(h) {
		if it.Address == owner {
			total.Add(total, it.Value)
			n++
			moveTo = uint32(it.GetMoveToCandidateID())
			cand = it.CandidateKey
		}
	}
	return
}

// C16 (transaction side) with C01/C02/C03/C05/C06/C07: Unbond, MoveStake, Lock
// and Delegate by A.  Config "kind": 0 unbond, 1 move, 2 lock, 3 delegate, 4
// unbond while the account's stake is locked by LockStake.
func VerifHarness_Stake_Deliver() {
	u := verifUniverse()
	P, Q, stakeA := verifStaking(u)
	st := u.st
	nonce0 := st.Accounts.GetNonce(u.A)
	value := verifBigNN("value")
	kind := verifConfig("kind")
	unbondAt := u.height + types.GetUnbondPeriod()
	moveAt := u.height + types.GetMovePeriod()
	balA := st.Accounts.GetBalance(u.A, 0)
	wlA := big.NewInt(0)
	if it := st.Waitlist.Get(u.A, P, 0); it != nil {
		wlA = new(big.Int).Set(it.Value)
	}
	var tx *Transaction
	var due uint64
	switch kind {
	case 0, 4:
		if kind == 4 {
			st.Accounts.SetLockStakeUntilBlock(u.A, verifU64("lockedUntil"))
		}
		tx = verifTx(nonce0+1, verifGasPrice(), 0, TypeUnbond, UnbondDataV3{PubKey: P, Coin: 0, Value: value})
	case 1:
		to := Q
		switch verifChoice("target", 3) {
		case 1:
			to = P // same candidate
		case 2:
			to = verifPub(7) // not a candidate
		}
		tx = verifTx(nonce0+1, verifGasPrice(), 0, TypeMoveStake, MoveStakeData{FromPubKey: P, ToPubKey: to, Coin: 0, Value: value})
		resp, _, _ := verifDeliverChecked(u, tx, verifSignBy(tx, 1), u.A, nonce0)
		if resp.Code == 0 {
			verifAssert("C16:move-only-towards-an-existing-other-candidate", to == Q)
			got, n, moveTo, cand := verifFrozenAt(u, moveAt, u.A)
			verifAssert("C16:moved-coins-frozen-for-exactly-the-move-period", n == 1 && got.Cmp(value) == 0)
			verifAssert("C16:move-carries-its-target", moveTo == st.Candidates.ID(Q) && cand != nil && *cand == P)
			verifAssert("C16:move-never-credits-the-balance", st.Accounts.GetBalance(u.A, 0).Cmp(balA) <= 0)
			verifAssert("C16:moved-at-most-the-holding", value.Cmp(stakeA) <= 0)
			other, n2, _, _ := verifFrozenAt(u, unbondAt, u.A)
			verifAssert("C16:nothing-frozen-elsewhere", n2 == 0 && other.Sign() == 0)
		}
		return
	case 2:
		// bound: the due block is one of four concrete heights around the current
		// one (frozen-fund keys are fixed-width encodings of the height)
		due = []uint64{u.height - 1, u.height, u.height + 1, u.height + 100000}[verifChoice("dueBlock", 4)]
		u.ffHeights = append(u.ffHeights, due)
		if verifConfig("maturedBatch") == 1 {
			// a frozen-fund batch of this very height has just matured: BeginBlock
			// paid it out and flagged it deleted (it leaves the tree at commit)
			pk := P
			st.FrozenFunds.AddFund(u.height, u.B, &pk, st.Candidates.ID(P), 0, big.NewInt(12345), 0)
			st.Accounts.AddBalance(u.B, 0, big.NewInt(12345))
			st.FrozenFunds.Delete(u.height)
		}
		tx = verifTx(nonce0+1, verifGasPrice(), 0, TypeLock, LockData{DueBlock: uint32(due), Coin: 0, Value: value})
	case 3:
		tx = verifTx(nonce0+1, verifGasPrice(), 0, TypeDelegate, DelegateDataV260{PubKey: Q, Coin: 0, Value: value})
	case 5, 6:
		// C18/C05: switching a candidate on (5) or off (6): only its owner or control
		// address, and not on while it is jailed.  R is owned by A (config
		// "foreign": by B) and jailed until an arbitrary height.
		R := verifPub(3)
		own := u.A
		if verifConfig("foreign") == 1 {
			own = u.B
		}
		jailedUntil := verifU64("jailedUntil")
		st.Candidates.Create(own, own, own, R, 10, 1, jailedUntil)
		if kind == 6 {
			st.Candidates.SetOnline(R)
			tx = verifTx(nonce0+1, verifGasPrice(), 0, TypeSetCandidateOffline, SetCandidateOffData{PubKey: R})
		} else {
			tx = verifTx(nonce0+1, verifGasPrice(), 0, TypeSetCandidateOnline, SetCandidateOnData{PubKey: R})
		}
		u.cands = append(u.cands, R)
		resp, _, _ := verifDeliverChecked(u, tx, verifSignBy(tx, 1), u.A, nonce0)
		c := st.Candidates.GetCandidate(R)
		if resp.Code == 0 {
			verifAssert("C05:candidate-switched-only-by-owner-or-control", own == u.A)
			if kind == 5 {
				verifAssert("C18:jailed-candidate-not-switched-on-before-the-jail-ends", jailedUntil <= u.height)
				verifAssert("C18:switched-on", c.Status == 2)
			} else {
				verifAssert("C18:switched-off", c.Status == 1)
			}
		} else {
			want := byte(1)
			if kind == 6 {
				want = 2
			}
			verifAssert("C03:rejected-switch-leaves-the-status", c.Status == want)
		}
		return
	}
	resp, before, after := verifDeliverChecked(u, tx, verifSignBy(tx, 1), u.A, nonce0)
	if resp.Code != 0 {
		if kind == 4 {
			verifNote("blocked", resp.Code == code.UnbondBlocked)
		}
		return
	}
	switch kind {
	case 0, 4:
		if kind == 4 {
			verifAssert("C16:locked-stake-cannot-be-unbonded", st.Accounts.GetLockStakeUntilBlock(u.A) <= u.height)
		}
		got, n, moveTo, _ := verifFrozenAt(u, unbondAt, u.A)
		verifAssert("C16:unbonded-coins-frozen-for-exactly-the-unbond-period", n == 1 && got.Cmp(value) == 0 && moveTo == 0)
		verifAssert("C16:unbond-does-not-credit-the-balance-now", st.Accounts.GetBalance(u.A, 0).Cmp(balA) <= 0)
		holding := new(big.Int).Set(stakeA)
		if verifConfig("waitlisted") == 2 {
			holding.Add(holding, wlA) // a live stake and a waitlist entry together
		}
		verifAssert("C16:unbonded-at-most-the-holding", value.Cmp(holding) <= 0)
		early, n2, _, _ := verifFrozenAt(u, moveAt, u.A)
		verifAssert("C16:nothing-frozen-elsewhere", n2 == 0 && early.Sign() == 0)
	case 2:
		verifAssert("C16:lock-due-in-the-future", due > u.height)
		got, n, _, cand := verifFrozenAt(u, due, u.A)
		verifAssert("C16:locked-coins-frozen-until-exactly-the-due-block", n == 1 && got.Cmp(value) == 0 && cand == nil)
		paid := new(big.Int).Sub(before.get("bal.A.0"), after.get("bal.A.0"))
		fee := new(big.Int).Sub(after.get("rewardpool"), before.get("rewardpool"))
		verifAssert("C16:lock-debits-exactly-value-plus-fee", paid.Cmp(new(big.Int).Add(value, fee)) == 0)
	case 3:
		paid := new(big.Int).Sub(before.get("bal.A.0"), after.get("bal.A.0"))
		fee := new(big.Int).Sub(after.get("rewardpool"), before.get("rewardpool"))
		verifAssert("C05:delegate-debits-exactly-value-plus-fee", paid.Cmp(new(big.Int).Add(value, fee)) == 0)
		held := big.NewInt(0)
		for _, h := range st.Candidates.VerifUpdates(Q) {
			if h.Owner == u.A && h.Coin == 0 {
				held.Add(held, h.Value)
			}
		}
		verifAssert("C01:delegated-coins-held-by-the-candidate", held.Cmp(value) == 0)
	}
}
