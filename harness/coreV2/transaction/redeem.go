package transaction

import (
	"math/big"

	"github.com/MinterTeam/minter-go-node/coreV2/check"
	"github.com/MinterTeam/minter-go-node/coreV2/code"
	"github.com/MinterTeam/minter-go-node/coreV2/types"
	"github.com/MinterTeam/minter-go-node/crypto"
	"github.com/MinterTeam/minter-go-node/rlp"
	"golang.org/x/crypto/sha3"
)

// verifSignHash signs hash h with fixed key `keyid`.  Under the engine the
// signature is abstract ([0xA5, key id, h, 0...], see engine keccak.go);
// natively it is a real secp256k1 signature.
func verifSignHash(keyid int, h types.Hash) []byte {
	if verifSymbolic() {
		sig := make([]byte, 65)
		sig[0] = 0xA5
		sig[1] = byte(keyid)
		for i := 0; i < 32; i++ {
			sig[2+i] = h[i]
		}
		return sig
	}
	key, err := crypto.HexToECDSA(verifKeyHex(keyid))
	if err != nil {
		panic(err)
	}
	sig, err := crypto.Sign(h[:], key)
	if err != nil {
		panic(err)
	}
	return sig
}

func verifAddrHash(a types.Address) types.Hash {
	var h types.Hash
	hw := sha3.NewLegacyKeccak256()
	_ = rlp.Encode(hw, []interface{}{a})
	hw.Sum(h[:0])
	return h
}

// verifIssueCheck builds a check issued (signed) by signer `issuer`, locked
// with password key `lockKey`.
func verifIssueCheck(chk *check.Check, issuer, lockKey int) []byte {
	chk.Lock = new(big.Int).SetBytes(verifSignHash(lockKey, chk.HashWithoutLock()))
	if verifSymbolic() {
		chk.V, chk.R, chk.S = big.NewInt(27), big.NewInt(int64(issuer)), big.NewInt(1)
	} else {
		key, err := crypto.HexToECDSA(verifKeyHex(issuer))
		if err != nil {
			panic(err)
		}
		if err := chk.Sign(key); err != nil {
			panic(err)
		}
	}
	raw, err := rlp.EncodeToBytes(chk)
	if err != nil {
		panic(err)
	}
	return raw
}

// C21 (with the cross-cutting C01/C02/C03/C05/C06/C07): one CheckTx+DeliverTx
// of RedeemCheck by A of a check issued by B (or by A itself), then a second
// redemption attempt of the same check.
//
// Harness choices: the key the lock was made with and the key and address the
// proof was made with/for (the password is key 4; key 5 is a wrong password;
// B is a wrong address), whether the check was already used; symbolic: check
// value, due block, check chain id, nonces, gas price, balances.
func VerifHarness_C21_Redeem() {
	u := verifUniverse()
	coin := types.CoinID(verifConfig("coin"))
	gasCoin := types.CoinID(verifConfig("gasCoin"))
	txGasCoin := gasCoin
	if verifConfig("txGasCoinOther") == 1 {
		txGasCoin = types.CoinID((uint32(gasCoin) + 1) % 3)
	}
	issuerID := 2
	issuer := u.B
	if verifConfig("selfIssued") == 1 {
		issuerID, issuer = 1, u.A
	}
	nonce0 := verifU64("nonce0")
	u.st.Accounts.SetNonce(u.A, nonce0)

	chk := &check.Check{
		Nonce:    []byte{1, 2, 3},
		ChainID:  types.ChainID(verifByte("check.chainID")),
		DueBlock: verifU64("check.due"),
		Coin:     coin,
		Value:    verifBigNN("check.value"),
		GasCoin:  gasCoin,
	}
	const password = 4
	lockKey, proofKey := password, password
	proofFor := u.A
	switch verifChoice("crypto", 4) {
	case 1:
		proofKey = 5 // proof made with a wrong password
	case 2:
		proofFor = u.B // proof made for another address
	case 3:
		lockKey, proofKey = 5, 5 // a different password, known to the redeemer: fine
	}
	rawCheck := verifIssueCheck(chk, issuerID, lockKey)
	used := verifConfig("used") >= 1
	if used {
		u.st.Checks.UseCheck(chk)
	}
	if verifConfig("used") == 2 {
		// the check was redeemed in an earlier, committed block; in the current
		// block another check has been redeemed before this transaction
		if _, err := u.st.Commit(); err != nil {
			panic(err)
		}
		u.st.Checks.UseCheckHash(types.Hash{0xEE, 1})
	}
	var proof [65]byte
	copy(proof[:], verifSignHash(proofKey, verifAddrHash(proofFor)))
	data := RedeemCheckData{RawCheck: rawCheck, Proof: proof}
	tx := verifTx(verifU64("nonce"), verifU32("gasPrice"), txGasCoin, TypeRedeemCheck, data)
	raw := verifSignBy(tx, 1)

	before := verifSnapshot(u)
	rc := u.check(raw)
	mid := verifSnapshot(u)
	for i, c := range before.cells {
		verifAssert("C06:checktx-does-not-mutate:"+c.name, mid.cells[i].v.Cmp(c.v) == 0)
	}
	resp := u.deliver(raw)
	after := verifSnapshot(u)
	verifAssert("C06:check-ok<=>deliver-ok", (rc.Code == 0) == (resp.Code == 0))
	verifConservation(u, before, after)
	verifNonNegative(u, after)
	verifNote("code", uint64(resp.Code))
	n1 := u.st.Accounts.GetNonce(u.A)
	if resp.Code != 0 {
		verifAssert("C03:fail=>nonce-unchanged", n1 == nonce0)
		// the failed-transaction fee of a check redemption is charged to the check
		// issuer (C03: "the sender, or the check issuer for a check redemption")
		verifFailedFrame(u, before, after, issuer, txGasCoin)
		verifAssert("C21:rejected-redemption-does-not-use-the-check", u.st.Checks.IsCheckUsed(chk) == used)
		return
	}
	verifAssert("C03:ok=>nonce+1", n1 == nonce0+1)
	verifAssert("C04:accept=>nonce=last+1", tx.Nonce == nonce0+1)
	verifAssert("C04:accept=>chain", tx.ChainID == types.CurrentChainID)
	// ---- C21 gates
	verifAssert("C21:not-after-due-block", chk.DueBlock >= u.height)
	verifAssert("C21:issued-for-this-network", chk.ChainID == types.CurrentChainID)
	verifAssert("C21:proof-made-with-the-password", proofKey == lockKey)
	verifAssert("C21:proof-made-for-the-redeemer", proofFor == u.A)
	verifAssert("C21:not-redeemed-before", !used)
	verifAssert("C21:gas-coin-is-the-checks", tx.GasCoin == chk.GasCoin)
	verifAssert("C21:gas-price-1", tx.GasPrice == 1)
	verifAssert("C21:check-marked-used", u.st.Checks.IsCheckUsed(chk))
	// ---- C21 payout: exactly coin and value from issuer to redeemer, fee from the issuer in the check's gas coin
	d := func(who string, c types.CoinID) *big.Int {
		n := "bal." + who + "." + c.String()
		return new(big.Int).Sub(after.get(n), before.get(n))
	}
	for _, c := range u.coins {
		for _, who := range []string{"zero", "burn", "C"} {
			if who == "burn" && c == gasCoin && !gasCoin.IsBaseCoin() {
				verifAssert("C05:not-debited:bal."+who+"."+c.String(), d(who, c).Sign() >= 0)
				continue
			}
			verifAssert("C21:third-party-untouched", d(who, c).Sign() == 0)
		}
	}
	iss := "B"
	if issuerID == 1 {
		iss = "A"
	}
	for _, c := range u.coins {
		want := big.NewInt(0)
		if c == coin && issuerID != 1 {
			want = chk.Value
		}
		if issuerID != 1 {
			verifAssert("C21:redeemer-gets-exactly-the-value", d("A", c).Cmp(want) == 0)
		}
		// issuer: -value in coin, -fee in gas coin
		got := new(big.Int).Neg(d(iss, c))
		if c == coin && issuerID != 1 {
			got.Sub(got, chk.Value)
		}
		if c == gasCoin {
			verifAssert("C21:fee-from-issuer-in-check-gas-coin>=0", got.Sign() >= 0)
			if gasCoin.IsBaseCoin() {
				fee := new(big.Int).Sub(after.get("rewardpool"), before.get("rewardpool"))
				verifAssert("C21:issuer-pays-value-plus-fee", got.Cmp(fee) == 0)
				verifAssert("C27:fee=gasprice*typeprice", fee.Cmp(u.st.Commission.GetCommissions().RedeemCheck) == 0)
			}
		} else {
			verifAssert("C21:issuer-pays-exactly-the-value", got.Sign() == 0)
		}
	}
	_ = issuer
	// ---- a redeemed check can never be redeemed again (next nonce, same check)
	tx2 := verifTx(tx.Nonce+1, 1, txGasCoin, TypeRedeemCheck, data)
	raw2 := verifSignBy(tx2, 1)
	resp2 := u.deliver(raw2)
	verifAssert("C21:second-redemption-rejected", resp2.Code != code.OK)
	after2 := verifSnapshot(u)
	verifAssert("C21:second-redemption-pays-nothing", after2.get("bal."+iss+"."+coin.String()).Cmp(after.get("bal."+iss+"."+coin.String())) == 0 || coin == txGasCoin)
	verifAssert("C21:second-redemption-pays-nothing", after2.get("bal.A."+coin.String()).Cmp(after.get("bal.A."+coin.String())) <= 0)
}
