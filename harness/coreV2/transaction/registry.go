package transaction

import (
	"math/big"

	"github.com/MinterTeam/minter-go-node/coreV2/types"
)

// C22 (with C01/C02/C03/C05/C06/C07): CreateCoin / CreateToken / RecreateCoin /
// RecreateToken / EditCoinOwner by A (owner of the tickers AAA and TOK) or by B
// (config "signerB").  Config "kind" selects the type, "ticker" the symbol:
// 0 = a new ticker NEW, 1 = AAA (bancor coin 1), 2 = TOK (token 2).
func VerifHarness_CoinRegistry_Deliver() {
	u := verifUniverse()
	signer := 1 + verifConfig("signerB")
	sender := verifAddr(signer)
	nonce0 := u.st.Accounts.GetNonce(sender)
	// ticker 3: the ownerless pool-token ticker (config pool10 lp10)
	sym := []types.CoinSymbol{verifSym("NEW"), verifSym("AAA"), verifSym("TOK"), LiquidityCoinSymbol(1)}[verifConfig("ticker")]
	oldID := types.CoinID(verifConfig("ticker")) // 0 = none
	count0 := u.st.App.GetCoinsCount()
	newID := types.CoinID(count0 + 1)
	u.coins = append(u.coins, newID) // snapshot the coin that may come into being
	kind := verifConfig("kind")
	amount, reserve, max := verifBigNN("initialAmount"), verifBigNN("initialReserve"), verifBigNN("maxSupply")
	var tx *Transaction
	switch kind {
	case 0:
		tx = verifTx(nonce0+1, verifGasPrice(), 0, TypeCreateCoin, CreateCoinData{Name: "n", Symbol: sym, InitialAmount: amount, InitialReserve: reserve, ConstantReserveRatio: verifU32("crr"), MaxSupply: max})
	case 1:
		tx = verifTx(nonce0+1, verifGasPrice(), 0, TypeCreateToken, CreateTokenData{Name: "n", Symbol: sym, InitialAmount: amount, MaxSupply: max, Mintable: true, Burnable: true})
	case 2:
		tx = verifTx(nonce0+1, verifGasPrice(), 0, TypeRecreateCoin, RecreateCoinData{Name: "n", Symbol: sym, InitialAmount: amount, InitialReserve: reserve, ConstantReserveRatio: verifU32("crr"), MaxSupply: max})
	case 3:
		tx = verifTx(nonce0+1, verifGasPrice(), 0, TypeRecreateToken, RecreateTokenData{Name: "n", Symbol: sym, InitialAmount: amount, MaxSupply: max, Mintable: true, Burnable: true})
	case 4:
		tx = verifTx(nonce0+1, verifGasPrice(), 0, TypeEditCoinOwner, EditCoinOwnerData{Symbol: sym, NewOwner: u.B})
	}
	existed := u.st.Coins.ExistsBySymbol(sym)
	resp, before, after := verifDeliverChecked(u, tx, verifSignBy(tx, signer), sender, nonce0)
	if resp.Code == 0 {
		// C27: the type's own price (times the gas price) reaches the reward pool;
		// the ticker fee of a creation is burned to the zero address instead
		p := u.st.Commission.GetCommissions()
		typePrice := []*big.Int{p.CreateCoin, p.CreateToken, p.RecreateCoin, p.RecreateToken, p.EditTickerOwner}[kind]
		gp := big.NewInt(int64(tx.GasPrice))
		fee := new(big.Int).Sub(after.get("rewardpool"), before.get("rewardpool"))
		burned := new(big.Int).Sub(after.get("bal.zero.0"), before.get("bal.zero.0"))
		wantFee := new(big.Int).Mul(gp, typePrice)
		wantBurn := big.NewInt(0)
		if kind <= 1 {
			wantBurn = new(big.Int).Mul(gp, p.CreateTicker3)
		}
		if pc := types.CoinID(verifConfig("priceCoin")); !pc.IsBaseCoin() {
			// price table in a custom coin: gas price x price is converted through
			// the (price coin, base) pool, which this transaction does not touch
			sw := u.st.Swapper().GetSwapper(pc, 0)
			total, _ := sw.CalculateBuyForSellWithOrders(new(big.Int).Add(wantFee, wantBurn))
			if kind <= 1 {
				wantBurn, _ = sw.CalculateBuyForSellWithOrders(wantBurn)
			}
			wantFee = new(big.Int).Sub(total, wantBurn)
		}
		verifAssert("C27:fee=gasprice*typeprice", fee.Cmp(wantFee) == 0)
		if kind <= 1 {
			verifAssert("C27:ticker-fee-burned-to-the-zero-address", burned.Cmp(wantBurn) == 0)
		}
	}
	count1 := u.st.App.GetCoinsCount()
	if resp.Code != 0 {
		verifAssert("C22:rejected-transaction-uses-no-coin-id", count1 == count0 && !u.st.Coins.Exists(newID))
		return
	}
	owner := func() *types.Address {
		info := u.st.Coins.GetSymbolInfo(sym)
		if info == nil {
			return nil
		}
		return info.OwnerAddress()
	}
	switch kind {
	case 0, 1:
		verifAssert("C22:created-ticker-was-free", !existed)
		verifAssert("C22:new-coin-gets-the-next-id", count1 == count0+1 && u.st.Coins.Exists(newID))
		m := u.st.Coins.GetCoinBySymbol(sym, 0)
		verifAssert("C22:active-ticker-resolves-to-the-new-coin", m != nil && m.ID() == newID)
		o := owner()
		verifAssert("C22:creator-owns-the-ticker", o != nil && *o == sender)
		verifAssert("C22:initial-amount-credited", after.get("bal."+verifWho(u, sender)+"."+newID.String()).Cmp(amount) == 0)
		verifAssert("C22:initial-volume", after.get("volume."+newID.String()).Cmp(amount) == 0 && amount.Cmp(max) <= 0)
	case 2, 3:
		verifAssert("C22:recreate-only-an-existing-ticker", existed)
		verifAssert("C22:recreate-only-by-the-ticker-owner", signer == 1 && verifConfig("ticker") != 3)
		verifAssert("C22:new-coin-gets-the-next-id", count1 == count0+1 && u.st.Coins.Exists(newID))
		m := u.st.Coins.GetCoinBySymbol(sym, 0)
		verifAssert("C22:active-ticker-resolves-to-the-new-coin", m != nil && m.ID() == newID)
		old := u.st.Coins.GetCoin(oldID)
		verifAssert("C22:old-coin-kept-under-a-new-version", old != nil && old.Version() == 1 && old.ID() == oldID)
		archived := u.st.Coins.GetCoinBySymbol(sym, 1)
		verifAssert("C22:old-coin-reachable-by-symbol-and-version", archived != nil && archived.ID() == oldID)
		o := owner()
		verifAssert("C22:ticker-owner-unchanged-by-recreation", o != nil && *o == sender)
		// the same ticker recreated a second time (seed C22-k): version numbers
		// keep counting, every archived coin stays reachable under its own version
		n1 := u.st.Accounts.GetNonce(sender)
		tx2 := &Transaction{Nonce: n1 + 1, ChainID: tx.ChainID, GasPrice: tx.GasPrice, GasCoin: tx.GasCoin, Type: tx.Type, Data: tx.Data, SignatureType: SigTypeSingle}
		r2 := u.deliver(verifSignBy(tx2, signer))
		verifNote("second", uint64(r2.Code))
		if r2.Code == 0 {
			newID2 := newID + 1
			verifAssert("C22:second-recreation-gets-the-next-id", u.st.App.GetCoinsCount() == count0+2 && u.st.Coins.Exists(newID2))
			first, second := u.st.Coins.GetCoin(oldID), u.st.Coins.GetCoin(newID)
			verifAssert("C22:second-recreation-archives-under-version-2", first != nil && first.Version() == 1 && second != nil && second.Version() == 2)
			a1, a2, a0 := u.st.Coins.GetCoinBySymbol(sym, 1), u.st.Coins.GetCoinBySymbol(sym, 2), u.st.Coins.GetCoinBySymbol(sym, 0)
			verifAssert("C22:every-version-resolves-to-its-own-coin", a1 != nil && a1.ID() == oldID && a2 != nil && a2.ID() == newID && a0 != nil && a0.ID() == newID2)
		}
	case 4:
		verifAssert("C22:owner-change-only-by-the-ticker-owner", existed && signer == 1 && verifConfig("ticker") != 3)
		o := owner()
		verifAssert("C22:ticker-has-the-new-owner", o != nil && *o == u.B)
		verifAssert("C22:owner-change-uses-no-coin-id", count1 == count0)
	}
	_ = big.NewInt
}
