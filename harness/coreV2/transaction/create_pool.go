package transaction

import (
	"math/big"

	"github.com/MinterTeam/minter-go-node/coreV2/types"
)

// CreateSwapPool (bancor coin 1, token 2) with arbitrary volumes.  C07: what
// the pre-check lets through never panics in the pool constructor (minimum
// liquidity boundary).  C22: the pool token gets the next unused coin id and is
// owned by nobody.  C13: the creator receives sqrt(v0*v1) - 1000 pool tokens,
// 1000 are locked at the zero address.
func VerifHarness_CreatePool_Deliver() {
	u := verifUniverse()
	nonce0 := u.st.Accounts.GetNonce(u.A)
	c0, c1 := verifCoinBancor, verifCoinToken
	if verifConfig("reverse") == 1 {
		c0, c1 = c1, c0
	}
	data := CreateSwapPoolData{Coin0: c0, Coin1: c1, Volume0: verifBigNN("volume0"), Volume1: verifBigNN("volume1")}
	if b := verifConfig("smallVolumes"); b == 1 {
		// bound that keeps the boundary of the minimum liquidity within reach of the solvers
		verifAssume(data.Volume0.Cmp(big.NewInt(4000)) <= 0 && data.Volume1.Cmp(big.NewInt(4000)) <= 0)
	}
	tx := verifTx(nonce0+1, verifGasPrice(), 0, TypeCreateSwapPool, data)
	raw := verifSignBy(tx, 1)
	count0 := u.st.App.GetCoinsCount()
	resp, before, after := verifDeliverChecked(u, tx, raw, u.A, nonce0)
	if resp.Code != 0 {
		verifAssert("C22:rejected-creation-uses-no-coin-id", u.st.App.GetCoinsCount() == count0)
		return
	}
	lp := types.CoinID(count0 + 1)
	verifAssert("C22:pool-token-gets-the-next-coin-id", u.st.App.GetCoinsCount() == count0+1 && u.st.Coins.Exists(lp))
	m := u.st.Coins.GetCoin(lp)
	info := u.st.Coins.GetSymbolInfo(m.Symbol())
	verifAssert("C22:pool-token-has-no-owner", info == nil || info.OwnerAddress() == nil)
	r0, r1, _ := u.st.Swapper().SwapPool(c0, c1)
	verifAssert("C13:created-reserves-are-the-volumes", r0.Cmp(data.Volume0) == 0 && r1.Cmp(data.Volume1) == 0)
	d := func(c types.CoinID) *big.Int {
		n := "bal.A." + c.String()
		return new(big.Int).Sub(before.get(n), after.get(n))
	}
	verifAssert("C13:creator-pays-exactly-the-volumes", d(c0).Cmp(data.Volume0) == 0 && d(c1).Cmp(data.Volume1) == 0)
	got := u.st.Accounts.GetBalance(u.A, lp)
	locked := u.st.Accounts.GetBalance(types.Address{}, lp)
	verifAssert("C13:minimum-liquidity-locked", locked.Cmp(big.NewInt(1000)) == 0)
	verifAssert("C13:creator-gets-positive-liquidity", got.Sign() > 0)
	total := new(big.Int).Add(got, locked)
	verifAssert("C13:liquidity-is-the-root-of-the-product", new(big.Int).Mul(total, total).Cmp(new(big.Int).Mul(data.Volume0, data.Volume1)) <= 0)
	verifAssert("C22:pool-token-volume-is-what-was-minted", m.Volume().Cmp(total) == 0)
}
