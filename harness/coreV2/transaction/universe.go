package transaction

// Shared fixtures of the transaction-level harnesses: a small universe built
// through the state modules' own mutators with symbolic amounts, the
// independent ledger oracle, and transaction construction/signing.

import (
	"math/big"
	"sync"

	"github.com/MinterTeam/minter-go-node/coreV2/events"
	"github.com/MinterTeam/minter-go-node/coreV2/state"
	"github.com/MinterTeam/minter-go-node/coreV2/state/commission"
	"github.com/MinterTeam/minter-go-node/coreV2/types"
	"github.com/MinterTeam/minter-go-node/crypto"
	"github.com/MinterTeam/minter-go-node/rlp"
	db "github.com/tendermint/tm-db"
)

// Fixed key pairs: signer id k (1..5) has private key 0x1000+k.  Under the
// engine a signature is {V:27, R:k, S:1} and RecoverPlain is abstracted to the
// table registered with verifRegisterSigner; natively the transaction is
// really signed with the key, so both agree on the sender.
var verifAddrHex = [6]string{"",
	"123abaf7a75fe084f7f5bf8dd7e3e6d9e6027b3b",
	"9b11740ea6d46b9176b1ebb69a1672be9c2c63d8",
	"49328be73c2edb094e13ac5f7d1cfb6dbba47d15",
	"50748f03a458c538df5ee231caac25d0f2cde5ab",
	"8896f2a14f223bd0017edc81b90f267551b530c0",
}

func verifRegisterSigner(id int, addr types.Address) {}

func verifAddr(id int) types.Address {
	if id == 0 {
		return types.Address{}
	}
	return types.HexToAddress("Mx" + verifAddrHex[id])
}

func verifKeyHex(id int) string {
	const hexd = "0123456789abcdef"
	b := make([]byte, 64)
	for i := range b {
		b[i] = '0'
	}
	v := 0x1000 + id
	for i := 63; v > 0; i-- {
		b[i] = hexd[v&15]
		v >>= 4
	}
	return string(b)
}

type verifU struct {
	disk   db.DB
	st     *state.State
	pool   *big.Int // the block's reward pool
	A, B, C types.Address
	burn    types.Address
	height uint64
	exec   ExecutorTx
	addrs  []types.Address
	coins  []types.CoinID
	// staking extension (verifStaking): candidates and the heights at which
	// frozen funds may sit; both feed the ledger oracle
	cands     []types.Pubkey
	ffHeights []uint64
	// resting limit orders (verifOrders): ids whose escrow the ledger counts
	orders []verifOrderRef
}

type verifOrderRef struct {
	id           uint32
	c0, c1       types.CoinID // the order buys c0 and holds its escrow in c1
	owner        types.Address
	wantBuy, esc *big.Int
}

const (
	verifCoinBancor types.CoinID = 1 // bancor coin with reserve
	verifCoinToken  types.CoinID = 2 // token (crr 0)
	verifCoinLP     types.CoinID = 3 // pool token of pool (1,0), when configured
)

func verifSym(s string) types.CoinSymbol { return types.StrToCoinSymbol(s) }

// verifPrices returns a price table whose entries are arbitrary non-negative
// integers, denominated in the base coin.
func verifPrices() *commission.Price {
	// config "priceCoin": the coin the price table is denominated in (a custom
	// coin needs its pool with the base coin: pool10 / pool20)
	p := &commission.Price{Coin: types.CoinID(verifConfig("priceCoin"))}
	if verifConfig("concretePrices") == 1 {
		// every entry 10^17 pip (0.1 BIP), byte price 2*10^15
		c := func() *big.Int { return new(big.Int).Exp(big.NewInt(10), big.NewInt(17), nil) }
		p.PayloadByte = new(big.Int).Mul(big.NewInt(2), new(big.Int).Exp(big.NewInt(10), big.NewInt(15), nil))
		p.Send, p.BuyBancor, p.SellBancor, p.SellAllBancor = c(), c(), c(), c()
		p.BuyPoolBase, p.BuyPoolDelta, p.SellPoolBase, p.SellPoolDelta = c(), c(), c(), c()
		p.SellAllPoolBase, p.SellAllPoolDelta = c(), c()
		p.CreateTicker3, p.CreateTicker4, p.CreateTicker5, p.CreateTicker6, p.CreateTicker7to10 = c(), c(), c(), c(), c()
		p.CreateCoin, p.CreateToken, p.RecreateCoin, p.RecreateToken = c(), c(), c(), c()
		p.DeclareCandidacy, p.Delegate, p.Unbond, p.RedeemCheck = c(), c(), c(), c()
		p.SetCandidateOn, p.SetCandidateOff, p.CreateMultisig = c(), c(), c()
		p.MultisendBase, p.MultisendDelta, p.EditCandidate, p.SetHaltBlock = c(), c(), c(), c()
		p.EditTickerOwner, p.EditMultisig, p.EditCandidatePublicKey = c(), c(), c()
		p.CreateSwapPool, p.AddLiquidity, p.RemoveLiquidity, p.EditCandidateCommission = c(), c(), c(), c()
		p.BurnToken, p.MintToken, p.VoteCommission, p.VoteUpdate = c(), c(), c(), c()
		p.FailedTx, p.AddLimitOrder, p.RemoveLimitOrder = c(), c(), c()
		p.MoveStake, p.LockStake, p.Lock = c(), c(), c()
		return p
	}
	p.PayloadByte = verifBigNN("price.PayloadByte")
	p.Send = verifBigNN("price.Send")
	p.BuyBancor = verifBigNN("price.BuyBancor")
	p.SellBancor = verifBigNN("price.SellBancor")
	p.SellAllBancor = verifBigNN("price.SellAllBancor")
	p.BuyPoolBase = verifBigNN("price.BuyPoolBase")
	p.BuyPoolDelta = verifBigNN("price.BuyPoolDelta")
	p.SellPoolBase = verifBigNN("price.SellPoolBase")
	p.SellPoolDelta = verifBigNN("price.SellPoolDelta")
	p.SellAllPoolBase = verifBigNN("price.SellAllPoolBase")
	p.SellAllPoolDelta = verifBigNN("price.SellAllPoolDelta")
	p.CreateTicker3 = verifBigNN("price.CreateTicker3")
	p.CreateTicker4 = verifBigNN("price.CreateTicker4")
	p.CreateTicker5 = verifBigNN("price.CreateTicker5")
	p.CreateTicker6 = verifBigNN("price.CreateTicker6")
	p.CreateTicker7to10 = verifBigNN("price.CreateTicker7to10")
	p.CreateCoin = verifBigNN("price.CreateCoin")
	p.CreateToken = verifBigNN("price.CreateToken")
	p.RecreateCoin = verifBigNN("price.RecreateCoin")
	p.RecreateToken = verifBigNN("price.RecreateToken")
	p.DeclareCandidacy = verifBigNN("price.DeclareCandidacy")
	p.Delegate = verifBigNN("price.Delegate")
	p.Unbond = verifBigNN("price.Unbond")
	p.RedeemCheck = verifBigNN("price.RedeemCheck")
	p.SetCandidateOn = verifBigNN("price.SetCandidateOn")
	p.SetCandidateOff = verifBigNN("price.SetCandidateOff")
	p.CreateMultisig = verifBigNN("price.CreateMultisig")
	p.MultisendBase = verifBigNN("price.MultisendBase")
	p.MultisendDelta = verifBigNN("price.MultisendDelta")
	p.EditCandidate = verifBigNN("price.EditCandidate")
	p.SetHaltBlock = verifBigNN("price.SetHaltBlock")
	p.EditTickerOwner = verifBigNN("price.EditTickerOwner")
	p.EditMultisig = verifBigNN("price.EditMultisig")
	p.EditCandidatePublicKey = verifBigNN("price.EditCandidatePublicKey")
	p.CreateSwapPool = verifBigNN("price.CreateSwapPool")
	p.AddLiquidity = verifBigNN("price.AddLiquidity")
	p.RemoveLiquidity = verifBigNN("price.RemoveLiquidity")
	p.EditCandidateCommission = verifBigNN("price.EditCandidateCommission")
	p.BurnToken = verifBigNN("price.BurnToken")
	p.MintToken = verifBigNN("price.MintToken")
	p.VoteCommission = verifBigNN("price.VoteCommission")
	p.VoteUpdate = verifBigNN("price.VoteUpdate")
	p.FailedTx = verifBigNN("price.FailedTx")
	p.AddLimitOrder = verifBigNN("price.AddLimitOrder")
	p.RemoveLimitOrder = verifBigNN("price.RemoveLimitOrder")
	p.MoveStake = verifBigNN("price.MoveStake")
	p.LockStake = verifBigNN("price.LockStake")
	p.Lock = verifBigNN("price.Lock")
	return p
}

// verifUniverse builds the state.  Config flags (concrete, chosen by the
// runner): "pool10" = a live pool (coin 1, base) exists; "pool20" likewise for
// the token.  Every amount is symbolic; each custom coin's volume is defined
// as the sum of its holdings, which is the representation invariant AppState.
// Verify demands of a genesis.
func verifUniverse() *verifU {
	types.CurrentChainID = types.ChainMainnet
	disk := db.NewMemDB()
	st, err := state.NewStateV3(0, disk, &events.MockEvents{}, 1, 1, 0)
	if err != nil {
		panic(err)
	}
	u := &verifU{disk: disk, st: st, pool: verifBigNN("rewardPool"), height: 5000000, exec: NewExecutorV3(GetDataV3)}
	u.A, u.B, u.C = verifAddr(1), verifAddr(2), verifAddr(3)
	for id := 1; id <= 5; id++ {
		verifRegisterSigner(id, verifAddr(id))
	}
	// the burn address receives the 0.1% taken from pool trades with orders
	u.burn = types.HexToAddress("Mx00cedde786b34d733d1dc96559253081572df2c6")
	u.addrs = []types.Address{u.A, u.B, u.C, {}, u.burn}
	u.coins = []types.CoinID{0, verifCoinBancor, verifCoinToken}
	st.Commission.SetNewCommissions(verifPrices().Encode())

	vol := map[types.CoinID]*big.Int{verifCoinBancor: big.NewInt(0), verifCoinToken: big.NewInt(0)}
	// Balances are strictly positive (a zero balance is a different account
	// shape: the coin is absent from the account's coin list) except the
	// sender's balance of the coin named by config "zeroable", which may be 0.
	zeroable := types.CoinID(verifConfig("zeroable"))
	bal := func(who string, a types.Address, c types.CoinID) {
		var v *big.Int
		if who == "A" && verifConfig("concreteBalA") == 1 {
			// config "concreteBalA": A's balances are concrete (multi-hop routes)
			v = new(big.Int).Add(new(big.Int).Mul(big.NewInt(100+int64(c)), new(big.Int).Exp(big.NewInt(10), big.NewInt(18), nil)), big.NewInt(int64(c)+1))
		} else if who == "A" && c == zeroable && verifConfig("zeroableOn") == 1 {
			v = verifBigNN("bal." + who + "." + c.String())
		} else {
			v = verifBigPos("bal." + who + "." + c.String())
		}
		st.Accounts.SetBalance(a, c, v)
		if !c.IsBaseCoin() {
			vol[c].Add(vol[c], v)
		}
	}
	for _, c := range u.coins {
		bal("A", u.A, c)
		bal("B", u.B, c)
		bal("zero", types.Address{}, c)
	}
	// pools
	var lpSupply *big.Int
	if verifConfig("pool10") == 1 {
		var r1, r0 *big.Int
		if verifConfig("concretePool") == 1 {
			// concrete reserves keep the pool arithmetic of transaction-level
			// harnesses (nearly) linear; C13 covers the kernels symbolically
			r1, _ = new(big.Int).SetString("900000000000000000007", 10)
			r0, _ = new(big.Int).SetString("400000000000000000003", 10)
		} else {
			r1, r0 = verifBigPos("pool10.r1"), verifBigPos("pool10.r0")
		}
		vol[verifCoinBancor].Add(vol[verifCoinBancor], r1)
		if verifConfig("concreteLP") == 1 {
			// liquidity arithmetic multiplies by the pool token supply: concrete
			// in the liquidity harnesses
			lpSupply, _ = new(big.Int).SetString("600000000000000000005", 10)
		} else {
			lpSupply = verifBigPos("pool10.lp")
		}
		verifAssume(lpSupply.Cmp(big.NewInt(1000)) > 0)
		id := verifSeedPool(st, verifCoinBancor, 0, r1, r0)
		if verifConfig("lp10") == 1 {
			// the pool token of pool (1,0): minted only by liquidity operations,
			// owner nil; the minimum liquidity sits at the zero address
			verifAssume(lpSupply.Cmp(maxCoinSupply) <= 0)
			held := new(big.Int).Sub(lpSupply, big.NewInt(1000))
			st.Coins.CreateToken(verifCoinLP, LiquidityCoinSymbol(id), "Liquidity Pool", true, true, lpSupply, maxCoinSupply, nil)
			st.Accounts.SetBalance(types.Address{}, verifCoinLP, big.NewInt(1000))
			st.Accounts.SetBalance(u.B, verifCoinLP, held)
			u.coins = append(u.coins, verifCoinLP)
			st.App.SetCoinsCount(3)
		}
	}
	if verifConfig("pool20") == 1 {
		var r2, r0 *big.Int
		if verifConfig("concretePool") == 1 {
			r2, _ = new(big.Int).SetString("700000000000000000011", 10)
			r0, _ = new(big.Int).SetString("300000000000000000007", 10)
		} else {
			r2, r0 = verifBigPos("pool20.r2"), verifBigPos("pool20.r0")
		}
		vol[verifCoinToken].Add(vol[verifCoinToken], r2)
		verifSeedPool(st, verifCoinToken, 0, r2, r0)
	}
	// config "route5": two more tokens X (4) and Y (5) and the pools (2,4), (4,5),
	// (5,2), all concrete, so that the cyclic route 2 -> 4 -> 5 -> 2 -> 0 exists
	// (with pool20).  Only A holds X and Y.
	if verifConfig("route5") >= 1 {
		e := func(n, d int64) *big.Int {
			v := new(big.Int).Mul(big.NewInt(n), new(big.Int).Exp(big.NewInt(10), big.NewInt(18), nil))
			return v.Add(v, big.NewInt(d))
		}
		x, y := types.CoinID(4), types.CoinID(5)
		volX, volY := big.NewInt(0), big.NewInt(0)
		r24a, r24b := e(5000, 3), e(7000, 1)
		r45a, r45b := e(6000, 7), e(4000, 9)
		r52a, r52b := e(3000, 11), e(8000, 5)
		vol[verifCoinToken].Add(vol[verifCoinToken], r24a)
		vol[verifCoinToken].Add(vol[verifCoinToken], r52b)
		volX.Add(volX, r24b).Add(volX, r45a)
		volY.Add(volY, r45b).Add(volY, r52a)
		verifSeedPool(st, verifCoinToken, x, r24a, r24b)
		verifSeedPool(st, x, y, r45a, r45b)
		verifSeedPool(st, y, verifCoinToken, r52a, r52b)
		bx, by := e(10, 1), e(20, 2)
		st.Accounts.SetBalance(u.A, x, bx)
		st.Accounts.SetBalance(u.A, y, by)
		volX.Add(volX, bx)
		volY.Add(volY, by)
		ownerA := u.A
		big1 := e(1000000000, 0)
		st.Coins.CreateToken(x, verifSym("XXX"), "token x", true, true, volX, big1, &ownerA)
		st.Coins.CreateToken(y, verifSym("YYY"), "token y", true, true, volY, big1, &ownerA)
		u.coins = append(u.coins, x, y)
	}
	// coins: volume = sum of holdings; reserve >= minimum; volume <= max supply
	crr := verifU32Range("coin1.crr", 10, 100)
	res1 := verifBigPos("coin1.reserve")
	verifAssume(res1.Cmp(minCoinReserve) >= 0)
	max1 := verifBigPos("coin1.max")
	verifAssume(vol[verifCoinBancor].Cmp(max1) <= 0)
	verifAssume(max1.Cmp(maxCoinSupply) <= 0) // CreateCoin / CreateToken enforce it
	ownerA := u.A
	st.Coins.Create(verifCoinBancor, verifSym("AAA"), "bancor coin", vol[verifCoinBancor], crr, res1, max1, &ownerA)
	max2 := verifBigPos("coin2.max")
	verifAssume(vol[verifCoinToken].Cmp(max2) <= 0)
	verifAssume(max2.Cmp(maxCoinSupply) <= 0)
	st.Coins.CreateToken(verifCoinToken, verifSym("TOK"), "token", true, true, vol[verifCoinToken], max2, &ownerA)
	if verifConfig("route5") >= 1 {
		st.App.SetCoinsCount(5)
	} else if verifConfig("lp10") != 1 {
		st.App.SetCoinsCount(2)
	}
	return u
}

// verifSeedPool creates pool (c0,c1) with the given reserves directly in the
// swap module (PairCreate would impose the creation-time minimum liquidity on
// the reserves, which later trades do not preserve).
func verifSeedPool(st *state.State, c0, c1 types.CoinID, r0, r1 *big.Int) uint32 {
	return st.SwapV2.VerifSeed(c0, c1, r0, r1)
}

// verifLedger sums every holding of coin c the harness universe knows about,
// reading module state through getters (never through the in-node Checker).
func verifLedger(u *verifU, c types.CoinID) *big.Int {
	sum := big.NewInt(0)
	for _, a := range u.addrs {
		sum.Add(sum, u.st.Accounts.GetBalance(a, c))
	}
	for _, other := range u.coins {
		if other == c {
			continue
		}
		if u.st.Swapper().GetSwapper(c, other).Exists() {
			r, _, _ := u.st.Swapper().SwapPool(c, other)
			sum.Add(sum, r)
		}
	}
	for _, o := range u.orders {
		if o.c1 == c {
			_, esc := u.st.SwapV2.VerifOrder(o.c0, o.c1, o.id)
			sum.Add(sum, esc)
		}
	}
	for _, pk := range u.cands {
		for _, h := range u.st.Candidates.VerifStakes(pk) {
			if h.Coin == c {
				sum.Add(sum, h.Value)
			}
		}
		for _, h := range u.st.Candidates.VerifUpdates(pk) {
			if h.Coin == c {
				sum.Add(sum, h.Value)
			}
		}
		for _, a := range u.addrs {
			if w := u.st.Waitlist.Get(a, pk, c); w != nil {
				sum.Add(sum, w.Value)
			}
		}
	}
	for _, h := range u.ffHeights {
		for _, it := range u.st.FrozenFunds.VerifLive(h) {
			if it.Coin == c {
				sum.Add(sum, it.Value)
			}
		}
	}
	if c.IsBaseCoin() {
		for _, other := range u.coins {
			if !other.IsBaseCoin() && u.st.Coins.GetCoin(other) != nil {
				sum.Add(sum, u.st.Coins.GetCoin(other).Reserve())
			}
		}
		sum.Add(sum, u.pool)
		sum.Add(sum, u.st.App.GetTotalSlashed())
	}
	return sum
}

func verifVolume(u *verifU, c types.CoinID) *big.Int {
	return new(big.Int).Set(u.st.Coins.GetCoin(c).Volume())
}

// verifTx builds a transaction of the given type around data.
func verifTx(nonce uint64, gasPrice uint32, gasCoin types.CoinID, t TxType, data interface{}) *Transaction {
	enc, err := rlp.EncodeToBytes(data)
	if err != nil {
		panic(err)
	}
	return &Transaction{
		Nonce:         nonce,
		ChainID:       types.CurrentChainID,
		GasPrice:      gasPrice,
		GasCoin:       gasCoin,
		Type:          t,
		Data:          enc,
		SignatureType: SigTypeSingle,
	}
}

// verifSignBy signs tx as signer id and returns the wire bytes.
func verifSignBy(tx *Transaction, id int) []byte {
	if verifSymbolic() {
		tx.sig = &Signature{V: big.NewInt(27), R: big.NewInt(int64(id)), S: big.NewInt(1)}
		data, err := rlp.EncodeToBytes(tx.sig)
		if err != nil {
			panic(err)
		}
		tx.SignatureData = data
	} else {
		key, err := crypto.HexToECDSA(verifKeyHex(id))
		if err != nil {
			panic(err)
		}
		if err := tx.Sign(key); err != nil {
			panic(err)
		}
	}
	raw, err := rlp.EncodeToBytes(tx)
	if err != nil {
		panic(err)
	}
	return raw
}

func (u *verifU) deliver(raw []byte) Response {
	return u.exec.RunTx(u.st, raw, u.pool, u.height, &sync.Map{}, 0, false)
}

// reopen commits the state and replaces it by a fresh State opened over the
// same database: what a restarted node works with (every in-memory cache empty).
func (u *verifU) reopen() {
	if _, err := u.st.Commit(); err != nil {
		panic(err)
	}
	st, err := state.NewStateV3(1, u.disk, &events.MockEvents{}, 1, 1, 0)
	if err != nil {
		panic(err)
	}
	u.st = st
}

// deliverCatch is deliver with the panic (if any) caught and handed back.
func (u *verifU) deliverCatch(raw []byte) (resp Response, panicked bool, pv interface{}) {
	defer func() {
		if r := recover(); r != nil {
			panicked, pv = true, r
		}
	}()
	resp = u.deliver(raw)
	return resp, false, nil
}

func (u *verifU) check(raw []byte) Response {
	return u.exec.RunTx(state.NewCheckState(u.st), raw, nil, u.height, &sync.Map{}, 0, true)
}
