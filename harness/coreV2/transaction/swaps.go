package transaction

import (
	"math/big"

	"github.com/MinterTeam/minter-go-node/coreV2/types"
	abcTypes "github.com/tendermint/tendermint/abci/types"
)

func verifTag(tags []abcTypes.EventAttribute, key string) (string, bool) {
	for _, t := range tags {
		if string(t.Key) == key {
			return string(t.Value), true
		}
	}
	return "", false
}

// verifTradeChecks: C15 for an accepted trade of sender A selling coin `from`
// for coin `to`, fee paid in gasCoin.  sold/bought are the amounts the
// transaction is supposed to have traded (nil = unconstrained side).
func verifTradeChecks(u *verifU, resp Response, before, after *verifSnap, from, to, gasCoin types.CoinID) (sold, bought *big.Int) {
	d := func(c types.CoinID) *big.Int {
		n := "bal.A." + c.String()
		return new(big.Int).Sub(after.get(n), before.get(n))
	}
	// the fee in the gas coin, as recorded by the transaction itself
	feeStr, _ := verifTag(resp.Tags, "tx.commission_amount")
	fee, ok := new(big.Int).SetString(feeStr, 10)
	verifAssert("C15:commission-tag-present", ok)
	if !ok {
		fee = big.NewInt(0)
	}
	sold = new(big.Int).Neg(d(from))
	bought = d(to)
	if gasCoin == from {
		sold.Sub(sold, fee)
	}
	if gasCoin == to {
		bought.Add(bought, fee)
	}
	if gasCoin != from && gasCoin != to {
		verifAssert("C15:fee-tag-equals-gas-coin-debit", new(big.Int).Neg(d(gasCoin)).Cmp(fee) == 0)
	}
	verifAssert("C15:fee-nonneg", fee.Sign() >= 0)
	return sold, bought
}

// SellSwapPool token(2) -> base through pool (2,0); gas coin = base or the token
// itself (then the commission swap moves the very pool the route uses).
func VerifHarness_SellPool_Deliver() {
	u := verifUniverse() // config: pool20=1 concretePool=1
	gasCoin := types.CoinID(verifConfig("gasCoin"))
	from, to := verifCoinToken, types.CoinID(0)
	if verifConfig("reverse") == 1 {
		from, to = 0, verifCoinToken
	}
	nonce0 := u.st.Accounts.GetNonce(u.A)
	data := SellSwapPoolDataV260{Coins: []types.CoinID{from, to}, ValueToSell: verifBigNN("valueToSell"), MinimumValueToBuy: verifBigNN("minBuy")}
	tx := verifTx(nonce0+1, verifGasPrice(), gasCoin, TypeSellSwapPool, data)
	raw := verifSignBy(tx, 1)
	resp, before, after := verifDeliverChecked(u, tx, raw, u.A, nonce0)
	if resp.Code != 0 {
		return
	}
	sold, bought := verifTradeChecks(u, resp, before, after, from, to, gasCoin)
	verifAssert("C15:sold-exactly-the-requested-amount", sold.Cmp(data.ValueToSell) == 0)
	verifAssert("C15:credited>=minimum", bought.Cmp(data.MinimumValueToBuy) >= 0)
	ret, _ := verifTag(resp.Tags, "tx.return")
	verifAssert("C15:return-tag-equals-credit", ret == bought.String())
}

// BuySwapPool: buy an exact amount of base for at most MaximumValueToSell of the token.
func VerifHarness_BuyPool_Deliver() {
	u := verifUniverse() // config: pool20=1 concretePool=1
	gasCoin := types.CoinID(verifConfig("gasCoin"))
	from, to := verifCoinToken, types.CoinID(0)
	if verifConfig("reverse") == 1 {
		from, to = 0, verifCoinToken
	}
	nonce0 := u.st.Accounts.GetNonce(u.A)
	// the route lists the coin to sell first (Run reverses it)
	// bound: the amount to buy is one of a few concrete values (config
	// "buyValue" = k: k * 10^17 + 7 pip); with a symbolic amount the pool's
	// buy formula divides by a symbolic reserve difference and the solvers do
	// not finish.  The maximum to sell, the balances and the gas price stay symbolic.
	valueToBuy := new(big.Int).Add(new(big.Int).Mul(big.NewInt(int64(verifConfig("buyValue"))), new(big.Int).Exp(big.NewInt(10), big.NewInt(17), nil)), big.NewInt(7))
	data := BuySwapPoolDataV260{Coins: []types.CoinID{from, to}, ValueToBuy: valueToBuy, MaximumValueToSell: verifBigNN("maxSell")}
	tx := verifTx(nonce0+1, verifGasPrice(), gasCoin, TypeBuySwapPool, data)
	raw := verifSignBy(tx, 1)
	resp, before, after := verifDeliverChecked(u, tx, raw, u.A, nonce0)
	if resp.Code != 0 {
		return
	}
	sold, bought := verifTradeChecks(u, resp, before, after, from, to, gasCoin)
	verifAssert("C15:bought-exactly-the-requested-amount", bought.Cmp(data.ValueToBuy) == 0)
	verifAssert("C15:debited<=maximum", sold.Cmp(data.MaximumValueToSell) <= 0)
	ret, _ := verifTag(resp.Tags, "tx.return")
	verifAssert("C15:return-tag-equals-debit", ret == sold.String())
}

// SellCoin / BuyCoin / SellAllCoin between the bancor coin (1) and the base
// coin (bancor formula as an uninterpreted function under its contract).
func VerifHarness_Bancor_Deliver() {
	u := verifUniverse()
	gasCoin := types.CoinID(verifConfig("gasCoin"))
	from, to := verifCoinBancor, types.CoinID(0)
	if verifConfig("reverse") == 1 {
		from, to = 0, verifCoinBancor
	}
	nonce0 := u.st.Accounts.GetNonce(u.A)
	switch verifConfig("kind") {
	case 0: // sell
		data := SellCoinData{CoinToSell: from, ValueToSell: verifBigNN("valueToSell"), CoinToBuy: to, MinimumValueToBuy: verifBigNN("minBuy")}
		tx := verifTx(nonce0+1, verifGasPrice(), gasCoin, TypeSellCoin, data)
		resp, before, after := verifDeliverChecked(u, tx, verifSignBy(tx, 1), u.A, nonce0)
		if resp.Code != 0 {
			return
		}
		sold, bought := verifTradeChecks(u, resp, before, after, from, to, gasCoin)
		verifAssert("C15:sold-exactly-the-requested-amount", sold.Cmp(data.ValueToSell) == 0)
		verifAssert("C15:credited>=minimum", bought.Cmp(data.MinimumValueToBuy) >= 0)
		ret, _ := verifTag(resp.Tags, "tx.return")
		verifAssert("C15:return-tag-equals-credit", ret == bought.String())
	case 1: // buy
		data := BuyCoinData{CoinToBuy: to, ValueToBuy: verifBigNN("valueToBuy"), CoinToSell: from, MaximumValueToSell: verifBigNN("maxSell")}
		tx := verifTx(nonce0+1, verifGasPrice(), gasCoin, TypeBuyCoin, data)
		resp, before, after := verifDeliverChecked(u, tx, verifSignBy(tx, 1), u.A, nonce0)
		if resp.Code != 0 {
			return
		}
		sold, bought := verifTradeChecks(u, resp, before, after, from, to, gasCoin)
		verifAssert("C15:bought-exactly-the-requested-amount", bought.Cmp(data.ValueToBuy) == 0)
		verifAssert("C15:debited<=maximum", sold.Cmp(data.MaximumValueToSell) <= 0)
		ret, _ := verifTag(resp.Tags, "tx.return")
		verifAssert("C15:return-tag-equals-debit", ret == sold.String())
	case 2: // sell all: the fee is paid in the coin being sold
		data := SellAllCoinData{CoinToSell: from, CoinToBuy: to, MinimumValueToBuy: verifBigNN("minBuy")}
		tx := verifTx(nonce0+1, verifGasPrice(), gasCoin, TypeSellAllCoin, data)
		resp, before, after := verifDeliverCheckedFee(u, tx, verifSignBy(tx, 1), u.A, nonce0, from)
		if resp.Code != 0 {
			return
		}
		verifAssert("C15:sell-all-leaves-nothing", after.get("bal.A."+from.String()).Sign() == 0)
		got := new(big.Int).Sub(after.get("bal.A."+to.String()), before.get("bal.A."+to.String()))
		verifAssert("C15:credited>=minimum", got.Cmp(data.MinimumValueToBuy) >= 0)
		ret, _ := verifTag(resp.Tags, "tx.return")
		verifAssert("C15:return-tag-equals-credit", ret == got.String())
		sa, _ := verifTag(resp.Tags, "tx.sell_amount")
		verifAssert("C15:sell-amount-tag-equals-balance", sa == before.get("bal.A."+from.String()).String())
	}
}
