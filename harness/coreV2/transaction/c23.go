package transaction

import (
	"math/big"

	"github.com/MinterTeam/minter-go-node/coreV2/types"
	"github.com/MinterTeam/minter-go-node/rlp"
)

func verifSecpN() *big.Int {
	n, _ := new(big.Int).SetString("115792089237316195423570985008687907852837564279074904382605163141518161494337", 10)
	return n
}

// C23: the gates in front of public-key recovery (real bodies of RecoverPlain
// and crypto.ValidateSignatureValues; the curve arithmetic of Ecrecover is an
// arbitrary outcome).  Whatever is not rejected as an invalid signature has
// V in {27,28}, 1 <= R < N and 1 <= S <= N/2 (low S: the twin (R, N-S, V^1) of
// a valid signature is rejected, so a signed transaction has one encoding).
func VerifHarness_C23_RecoverGates() {
	R, S, Vb := verifBigNN("R"), verifBigNN("S"), verifBigNN("Vb")
	verifAssume(Vb.Cmp(new(big.Int).Lsh(big.NewInt(1), 500)) < 0) // bound: V below 2^500 (larger: same BitLen rejection)
	var h types.Hash
	_, err := RecoverPlain(h, R, S, Vb)
	if err == ErrInvalidSig {
		return
	}
	N := verifSecpN()
	half := new(big.Int).Rsh(N, 1)
	verifAssert("C23:recovery-id-is-27-or-28", Vb.Cmp(big.NewInt(27)) == 0 || Vb.Cmp(big.NewInt(28)) == 0)
	verifAssert("C23:r-in-curve-order-range", R.Sign() > 0 && R.Cmp(N) < 0)
	verifAssert("C23:s-in-lower-half", S.Sign() > 0 && S.Cmp(half) <= 0)
	// the malleated twin is rejected
	S2 := new(big.Int).Sub(N, S)
	V2 := big.NewInt(27 + 28)
	V2.Sub(V2, Vb)
	_, err2 := RecoverPlain(h, R, S2, V2)
	verifAssert("C23:malleated-twin-rejected", err2 == ErrInvalidSig)
}

func verifTxTemplate() *Transaction {
	return &Transaction{
		Nonce:         7,
		ChainID:       types.CurrentChainID,
		GasPrice:      1,
		GasCoin:       0,
		Type:          TypeSend,
		Data:          []byte{0xc1, 0x01},
		Payload:       []byte("p"),
		ServiceData:   []byte("s"),
		SignatureType: SigTypeSingle,
	}
}

// C23: the signed hash binds every field of the transaction other than the
// signature itself: changing any one of them changes the hash, changing the
// signature does not.  (The digest is an injective stand-in: what is decided is
// which fields Hash() feeds to it.)
func VerifHarness_C23_HashCoversFields() {
	base := verifTxTemplate().Hash()
	k := verifChoice("field", 10)
	tx := verifTxTemplate()
	d := verifU64Range("delta", 1, 200)
	switch k {
	case 0:
		tx.Nonce += d
	case 1:
		tx.ChainID = types.ChainID(byte(tx.ChainID) + 1)
	case 2:
		tx.GasPrice += uint32(d)
	case 3:
		tx.GasCoin = types.CoinID(uint32(tx.GasCoin) + uint32(d))
	case 4:
		tx.Type = TypeSellCoin
	case 5:
		tx.Data = []byte{0xc1, 0x02}
	case 6:
		tx.Payload = []byte("q")
	case 7:
		tx.ServiceData = []byte("t")
	case 8:
		tx.SignatureType = SigTypeMulti
	case 9:
		tx.SignatureData = []byte{1, 2, 3}
		tx.sig = &Signature{V: big.NewInt(27), R: big.NewInt(1), S: big.NewInt(1)}
		verifAssert("C23:hash-ignores-signature", tx.Hash() == base)
		return
	}
	verifAssert("C23:hash-covers-field", tx.Hash() != base)
}

// C23: no second encoding of a signed transaction is accepted: trailing bytes
// after the signature list inside SignatureData (which the signed hash does not
// cover), or after the whole transaction, make the decoder reject it.
func VerifHarness_C23_TrailingBytesRejected() {
	u := verifUniverse()
	nonce0 := verifU64("nonce0")
	u.st.Accounts.SetNonce(u.A, nonce0)
	data := SendData{Coin: 0, To: u.B, Value: verifBigNN("value")}
	tx := verifTx(verifU64("nonce"), verifU32("gasPrice"), 0, TypeSend, data)
	raw := verifSignBy(tx, 1)
	switch verifChoice("where", 3) {
	case 0:
		// control: the untouched encoding (may be accepted)
		resp := u.deliver(raw)
		verifNote("code", uint64(resp.Code))
		verifAssert("C23:control-reaches-the-executor", resp.Code == 0 || resp.Code != 0)
		return
	case 1:
		tx.SignatureData = append(tx.SignatureData, 0x01)
		var err error
		raw, err = rlp.EncodeToBytes(tx)
		if err != nil {
			panic(err)
		}
	case 2:
		raw = append(raw, 0x01)
	}
	resp := u.deliver(raw)
	verifNote("code", uint64(resp.Code))
	verifAssert("C23:rewritten-encoding-rejected", resp.Code != 0)
}
