package transaction

import (
	"math/big"

	"github.com/MinterTeam/minter-go-node/coreV2/types"
)

// One CheckTx+DeliverTx of a Send transaction from an arbitrary ledger.
func VerifHarness_Send_Deliver() {
	u := verifUniverse()
	gasCoin := types.CoinID(verifConfig("gasCoin"))
	coin := types.CoinID(verifConfig("coin"))
	to := u.B
	if verifConfig("toSelf") == 1 {
		to = u.A
	}
	nonce0 := verifU64("nonce0")
	u.st.Accounts.SetNonce(u.A, nonce0)
	data := SendData{Coin: coin, To: to, Value: verifBigNN("value")}
	tx := verifTx(verifU64("nonce"), verifU32("gasPrice"), gasCoin, TypeSend, data)
	tx.ChainID = types.ChainID(verifByte("chainID"))
	raw := verifSignBy(tx, 1)
	var priceInBase *big.Int
	if pc := types.CoinID(verifConfig("priceCoin")); !pc.IsBaseCoin() {
		inTable := new(big.Int).Mul(new(big.Int).SetUint64(uint64(tx.GasPrice)), u.st.Commission.GetCommissions().Send)
		priceInBase, _ = u.st.Swapper().GetSwapper(pc, 0).CalculateBuyForSellWithOrders(inTable)
	}
	resp, before, after := verifDeliverChecked(u, tx, raw, u.A, nonce0)
	if resp.Code == 0 {
		// C27 (base gas coin): the fee reaching the reward pool is gasPrice * price.Send
		if gasCoin.IsBaseCoin() {
			fee := new(big.Int).Sub(after.get("rewardpool"), before.get("rewardpool"))
			want := new(big.Int).Mul(big.NewInt(int64(tx.GasPrice)), u.st.Commission.GetCommissions().Send)
			if pc := types.CoinID(verifConfig("priceCoin")); !pc.IsBaseCoin() {
				// price table in a custom coin: gasPrice x price converted through
				// the (price coin, base) pool as it stood before the transaction
				want = priceInBase
			}
			verifAssert("C27:fee=gasprice*typeprice", fee.Cmp(want) == 0)
		}
		if to != u.A {
			got := new(big.Int).Sub(after.get("bal.B."+coin.String()), before.get("bal.B."+coin.String()))
			verifAssert("send:recipient+value", got.Cmp(data.Value) == 0)
		}
	}
}
