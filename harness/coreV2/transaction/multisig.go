package transaction

import (
	"math/big"

	"github.com/MinterTeam/minter-go-node/coreV2/types"
	"github.com/MinterTeam/minter-go-node/crypto"
	"github.com/MinterTeam/minter-go-node/rlp"
)

// verifSignMulti signs tx for the multisig account msig with the given signer ids.
func verifSignMulti(tx *Transaction, msig types.Address, ids []int) []byte {
	tx.SignatureType = SigTypeMulti
	if verifSymbolic() {
		tx.multisig = &SignatureMulti{Multisig: msig}
		for _, id := range ids {
			tx.multisig.Signatures = append(tx.multisig.Signatures, Signature{V: big.NewInt(27), R: big.NewInt(int64(id)), S: big.NewInt(1)})
		}
		data, err := rlp.EncodeToBytes(tx.multisig)
		if err != nil {
			panic(err)
		}
		tx.SignatureData = data
	} else {
		tx.SetMultisigAddress(msig)
		for _, id := range ids {
			key, err := crypto.HexToECDSA(verifKeyHex(id))
			if err != nil {
				panic(err)
			}
			if err := tx.Sign(key); err != nil {
				panic(err)
			}
		}
	}
	raw, err := rlp.EncodeToBytes(tx)
	if err != nil {
		panic(err)
	}
	return raw
}

// C05: a Send from a multisig account with owners (1,2,3) of symbolic weights
// and a symbolic threshold, signed by nsig signatures each of which is any of
// the three owners or a stranger (4) - duplicates included.  Acceptance
// implies pairwise distinct signers whose weights reach the threshold, and
// nobody but the multisig account is debited.
func VerifHarness_Multisig_Send() {
	u := verifUniverse()
	var msig types.Address
	msig[0], msig[19] = 0xAA, 0xAA
	w := []uint32{verifU32("w1"), verifU32("w2"), verifU32("w3")}
	threshold := verifU32("threshold")
	u.st.Accounts.CreateMultisig(w, []types.Address{verifAddr(1), verifAddr(2), verifAddr(3)}, threshold, msig)
	u.st.Accounts.SetBalance(msig, 0, verifBigPos("bal.M.0"))
	u.addrs = append(u.addrs, msig)
	nsig := verifConfig("nsig")
	var ids []int
	for i := 0; i < nsig; i++ {
		ids = append(ids, 1+verifChoice("signer"+string(rune('1'+i)), 4))
	}
	nonce0 := verifU64Range("nonce0", 0, 1<<62)
	u.st.Accounts.SetNonce(msig, nonce0)
	data := SendData{Coin: 0, To: u.B, Value: verifBigNN("value")}
	// the transaction's nonce is arbitrary: acceptance must imply last+1 (C04)
	tx := verifTx(verifU64("nonce"), verifGasPrice(), 0, TypeSend, data)
	raw := verifSignMulti(tx, msig, ids)
	resp, _, after1 := verifDeliverChecked(u, tx, raw, msig, nonce0)
	if resp.Code == 0 {
		// C04/C26: the same bytes again are rejected and cost the wallet nothing
		r2 := u.deliver(raw)
		after2 := verifSnapshot(u)
		verifAssert("C04:replay-after-success-rejected", r2.Code != 0)
		verifAssert("C26:second-delivery-rejected", r2.Code != 0)
		for i, c := range after1.cells {
			if c.kind == "balance" && c.owner != nil && *c.owner == msig {
				verifAssert("C26:after-success:second-delivery-free:"+c.name, after2.cells[i].v.Cmp(c.v) == 0)
			}
		}
		distinct := true
		for i := range ids {
			for j := i + 1; j < len(ids); j++ {
				if ids[i] == ids[j] {
					distinct = false
				}
			}
		}
		verifAssert("C05:accept=>distinct-signers", distinct)
		total := uint64(0)
		for _, id := range ids {
			if id <= 3 {
				total += uint64(w[id-1])
			}
		}
		if distinct {
			verifAssert("C05:accept=>weights-reach-threshold", total >= uint64(threshold))
		}
	}
}

// C22/C05: MintToken.  Only the ticker owner may mint, within max supply; in
// particular a pool token (owner nil) cannot be minted by a transaction.
func VerifHarness_MintToken_Deliver() {
	u := verifUniverse()
	coin := types.CoinID(verifConfig("coin"))
	signer := 1 + verifConfig("signerB") // 1 = A (owner of coins 1,2), 2 = B
	sender := verifAddr(signer)
	nonce0 := u.st.Accounts.GetNonce(sender)
	data := MintTokenData{Coin: coin, Value: verifBigPos("value")}
	tx := verifTx(nonce0+1, verifGasPrice(), 0, TypeMintToken, data)
	raw := verifSignBy(tx, signer)
	vol0 := verifVolume(u, coin)
	resp, _, after := verifDeliverChecked(u, tx, raw, sender, nonce0)
	if resp.Code == 0 {
		verifAssert("C22:mint-only-by-ticker-owner", coin != verifCoinLP && signer == 1)
		verifAssert("C22:mint-only-mintable-token", coin == verifCoinToken)
		verifAssert("C22:mint<=max-supply", after.get("volume."+coin.String()).Cmp(after.get("maxsupply."+coin.String())) <= 0)
		verifAssert("C22:minted=value", new(big.Int).Sub(after.get("volume."+coin.String()), vol0).Cmp(data.Value) == 0)
	}
}

// C22/C01/C02/C05: BurnToken of the token, the bancor coin or the pool token by
// its owner or by another holder.  Burning is open to every holder of a burnable
// token, takes exactly the value out of the sender's balance and of the volume,
// and never leaves less than one pip of supply.
func VerifHarness_BurnToken_Deliver() {
	u := verifUniverse()
	coin := types.CoinID(verifConfig("coin"))
	signer := 1 + verifConfig("signerB")
	sender := verifAddr(signer)
	nonce0 := u.st.Accounts.GetNonce(sender)
	data := BurnTokenDataV260{Coin: coin, Value: verifBigPos("value")}
	tx := verifTx(nonce0+1, verifGasPrice(), 0, TypeBurnToken, data)
	raw := verifSignBy(tx, signer)
	vol0 := verifVolume(u, coin)
	bal0 := new(big.Int).Set(u.st.Accounts.GetBalance(sender, coin))
	resp, _, after := verifDeliverChecked(u, tx, raw, sender, nonce0)
	if resp.Code == 0 {
		verifAssert("C22:burn-only-burnable-token", coin != verifCoinBancor)
		verifAssert("C02:burn-leaves-min-supply", after.get("volume."+coin.String()).Sign() > 0)
		verifAssert("C22:burnt=value", new(big.Int).Sub(vol0, after.get("volume."+coin.String())).Cmp(data.Value) == 0)
		verifAssert("C05:burn-debits-sender-by-value", new(big.Int).Sub(bal0, u.st.Accounts.GetBalance(sender, coin)).Cmp(data.Value) == 0)
		verifAssert("C22:burn<=held", bal0.Cmp(data.Value) >= 0)
	}
}

// C07/C05: a multisig wallet (owners 1,2,3; weights 1; threshold 1) edits its
// owner list to one with more addresses than weights (config "extra" = number
// of surplus addresses) or to a well-formed one, then a Send signed by the last
// listed owner is delivered.  The edit with a malformed list must be rejected;
// whatever was accepted, later transactions of the wallet never panic and obey
// the weights on record.
func VerifHarness_Multisig_EditThenSend() {
	u := verifUniverse()
	var msig types.Address
	msig[0], msig[19] = 0xAB, 0xAB
	u.st.Accounts.CreateMultisig([]uint32{1, 1, 1}, []types.Address{verifAddr(1), verifAddr(2), verifAddr(3)}, 1, msig)
	u.st.Accounts.SetBalance(msig, 0, verifBigPos("bal.M.0"))
	u.addrs = append(u.addrs, msig)
	nonce0 := u.st.Accounts.GetNonce(msig)
	extra := verifConfig("extra")
	weights := []uint32{verifU32Range("nw1", 0, 1023), verifU32Range("nw2", 0, 1023)}
	addrs := []types.Address{verifAddr(1), verifAddr(2)}
	for i := 0; i < extra; i++ {
		addrs = append(addrs, verifAddr(4+i))
	}
	th := verifU32("newThreshold")
	tx := verifTx(nonce0+1, verifGasPrice(), 0, TypeEditMultisig, EditMultisigData{Threshold: th, Weights: weights, Addresses: addrs})
	resp, _, _ := verifDeliverChecked(u, tx, verifSignMulti(tx, msig, []int{1}), msig, nonce0)
	if resp.Code == 0 {
		verifAssert("C05:multisig-owner-list-well-formed", len(addrs) == len(weights))
	}
	// a transaction signed by the last listed owner of whatever list is on record now
	last := 2
	if resp.Code == 0 && extra > 0 {
		last = 3 + extra
	}
	n1 := u.st.Accounts.GetNonce(msig)
	tx2 := verifTx(n1+1, verifGasPrice(), 0, TypeSend, SendData{Coin: 0, To: u.B, Value: big.NewInt(1)})
	r2 := u.deliver(verifSignMulti(tx2, msig, []int{last}))
	verifNote("second", uint64(r2.Code))
}
