package minter

import (
	"math/big"

	"github.com/MinterTeam/minter-go-node/coreV2/types"
	abciTypes "github.com/tendermint/tendermint/abci/types"
)

// verifSetStatuses lets the harness choose, per validator, whether the block's
// commit info reports it present, absent, or does not mention it at all.
func verifSetStatuses(u *verifBlockU) []bool {
	var present []bool
	u.bc.validatorsStatuses = map[types.TmAddress]int8{}
	for i, v := range u.bc.stateDeliver.Validators.GetValidators() {
		st := 0
		if verifConfig("statuses") == 1 {
			st = verifChoice("status"+string(rune('1'+i)), 3)
		}
		switch st {
		case 0:
			u.bc.validatorsStatuses[v.GetAddress()] = ValidatorPresent
		case 1:
			u.bc.validatorsStatuses[v.GetAddress()] = ValidatorAbsent
		}
		present = append(present, st == 0)
	}
	return present
}

// C19/C28/C01: EndBlock at a height that is neither a payout nor an
// order-expiry height.  Block reward plus collected fees accrue to the present,
// non-dropped validators pro rata of stake (rounded down); the remainder goes
// to the total-slashed pool; emission grows by the safe reward and the part
// of it validators do not get is credited to the zero address.
func VerifHarness_Block_EndAccumulate() {
	u := verifBlockUniverse()
	bc, st := u.bc, u.bc.stateDeliver
	const H = 1001
	reward, safe := verifBigNN("reward"), verifBigNN("safeReward")
	verifAssume(safe.Cmp(reward) >= 0)
	st.App.SetReward(reward, safe)
	fees := verifBigNN("fees")
	bc.rewards.Set(fees)
	if verifConfig("atCap") == 1 {
		bc.appDB.SetEmission(new(big.Int).Set(bc.rewardsCounter.TotalEmissionBig()))
	} else {
		verifAssume(bc.appDB.Emission().Cmp(bc.rewardsCounter.TotalEmissionBig()) < 0)
	}
	present := verifSetStatuses(u)
	vals := st.Validators.GetValidators()
	var acc0 []*big.Int
	total := big.NewInt(0)
	for i, v := range vals {
		acc0 = append(acc0, new(big.Int).Set(v.GetAccumReward()))
		if present[i] {
			total.Add(total, v.GetTotalBipStake())
		}
	}
	heights := []uint64{}
	ledger0 := verifStakeLedger(u, heights)
	emission0 := new(big.Int).Set(bc.appDB.Emission())
	slashed0 := new(big.Int).Set(st.App.GetTotalSlashed())
	zero0 := st.Accounts.GetBalance(types.Address{}, 0)

	bc.EndBlock(abciTypes.RequestEndBlock{Height: H})

	ledger1 := verifStakeLedger(u, heights)
	// the reward pool has been distributed: it is no longer a holding
	ledger1.Sub(ledger1, bc.rewards)
	dEmission := new(big.Int).Sub(bc.appDB.Emission(), emission0)
	verifAssert("C01:base-ledger-moves-with-emission", new(big.Int).Sub(ledger1, ledger0).Cmp(dEmission) == 0)
	pot := new(big.Int).Add(fees, reward)
	if verifConfig("atCap") == 1 {
		pot = new(big.Int).Set(fees)
		verifAssert("C28:cap=>no-emission", dEmission.Sign() == 0)
		verifAssert("C28:cap=>nothing-to-zero-address", st.Accounts.GetBalance(types.Address{}, 0).Cmp(zero0) == 0)
	} else {
		verifAssert("C28:emission+=safeReward", dEmission.Cmp(safe) == 0)
		verifAssert("C28:withheld-part-to-zero-address", new(big.Int).Sub(st.Accounts.GetBalance(types.Address{}, 0), zero0).Cmp(new(big.Int).Sub(safe, reward)) == 0)
	}
	paid := big.NewInt(0)
	for i, v := range vals {
		got := new(big.Int).Sub(v.GetAccumReward(), acc0[i])
		paid.Add(paid, got)
		if present[i] && total.Sign() > 0 {
			want := new(big.Int).Div(new(big.Int).Mul(pot, v.GetTotalBipStake()), total)
			verifAssert("C19:present-accrues-pro-rata", got.Cmp(want) == 0)
		} else {
			verifAssert("C19:not-present-accrues-nothing", got.Sign() == 0)
		}
	}
	rem := new(big.Int).Sub(st.App.GetTotalSlashed(), slashed0)
	verifAssert("C19:accrued+remainder=pot", new(big.Int).Add(paid, rem).Cmp(pot) == 0)
	verifAssert("C19:remainder>=0", rem.Sign() >= 0)
	verifAssert("C19:never-over-paid", paid.Cmp(pot) <= 0)
}

// C19/C07: payout block.  Every validator's accrued reward is split 10% DAO,
// 10% developers, commission, delegators pro rata of bip stake; what is paid
// never exceeds what was accrued (no stake is locked for x3 here).
func VerifHarness_Block_EndPayout() {
	u := verifBlockUniverse()
	bc, st := u.bc, u.bc.stateDeliver
	const H = 1440 // multiple of the 720-block payout period
	st.App.SetReward(big.NewInt(0), big.NewInt(0))
	bc.appDB.SetEmission(new(big.Int).Set(bc.rewardsCounter.TotalEmissionBig())) // no new emission: isolate the payout
	verifSetStatuses(u)
	vals := st.Validators.GetValidators()
	accrued := big.NewInt(0)
	for i, v := range vals {
		a := verifBigNN("accum" + string(rune('1'+i)))
		v.SetAccumReward(a)
		accrued.Add(accrued, a)
	}
	if verifConfig("evidence") == 1 {
		// byzantine evidence against P in the same block (composed step)
		verifBegin(u, H, []types.Pubkey{u.P}, 3)
		// the dropped validator's accrued reward returns to the pool in EndBlock
		// and is re-distributed to the present validators before the payout
		accrued = big.NewInt(0)
		for _, v := range vals {
			accrued.Add(accrued, v.GetAccumReward())
		}
	}
	slashed0 := new(big.Int).Set(st.App.GetTotalSlashed())
	upd0 := verifUpdatesTotal(u)
	pool0 := new(big.Int).Set(bc.rewards)

	bc.EndBlock(abciTypes.RequestEndBlock{Height: H})

	paid := new(big.Int).Sub(verifUpdatesTotal(u), upd0)
	rem := new(big.Int).Sub(st.App.GetTotalSlashed(), slashed0)
	left := big.NewInt(0)
	for _, v := range st.Validators.GetValidators() {
		left.Add(left, v.GetAccumReward())
	}
	_ = pool0
	verifAssert("C19:payout-never-exceeds-accrued", paid.Cmp(accrued) <= 0)
	verifAssert("C19:paid+remainder+left=accrued", new(big.Int).Add(new(big.Int).Add(paid, rem), left).Cmp(accrued) == 0)
}

func verifUpdatesTotal(u *verifBlockU) *big.Int {
	sum := big.NewInt(0)
	for _, pk := range []types.Pubkey{u.P, u.Q} {
		if !u.bc.stateDeliver.Candidates.Exists(pk) {
			continue
		}
		for _, s := range u.bc.stateDeliver.Candidates.VerifUpdates(pk) {
			sum.Add(sum, s.Value)
		}
		for _, s := range u.bc.stateDeliver.Candidates.VerifStakes(pk) {
			sum.Add(sum, s.Value)
		}
	}
	return sum
}
