package minter

import (
	"math/big"
	"time"

	"github.com/MinterTeam/minter-go-node/coreV2/types"
	abciTypes "github.com/tendermint/tendermint/abci/types"
	tmproto "github.com/tendermint/tendermint/proto/tendermint/types"
)

// verifSetStatuses lets the harness choose, per validator, whether the block's
// commit info reports it present, absent, or does not mention it at all.
func verifSetStatuses(u *verifBlockU) []bool {
	var present []bool
	u.bc.validatorsStatuses = map[types.TmAddress]int8{}
	for i, v := range u.bc.stateDeliver.Validators.GetValidators() {
		st := 0
		if verifConfig("statuses") == 1 {
			st = verifChoice("status"+string(rune('1'+i)), 3)
		}
		switch st {
		case 0:
			u.bc.validatorsStatuses[v.GetAddress()] = ValidatorPresent
		case 1:
			u.bc.validatorsStatuses[v.GetAddress()] = ValidatorAbsent
		}
		present = append(present, st == 0)
	}
	return present
}

// C19/C28/C01: EndBlock at a height that is neither a payout nor an
// order-expiry height.  Block reward plus collected fees accrue to the present,
// non-dropped validators pro rata of stake (rounded down); the remainder goes
// to the total-slashed pool; emission grows by the safe reward and the part
// of it validators do not get is credited to the zero address.
func VerifHarness_Block_EndAccumulate() {
	u := verifBlockUniverse()
	bc, st := u.bc, u.bc.stateDeliver
	const H = 1001
	reward, safe := verifBigNN("reward"), verifBigNN("safeReward")
	verifAssume(safe.Cmp(reward) >= 0)
	st.App.SetReward(reward, safe)
	fees := verifBigNN("fees")
	bc.rewards.Set(fees)
	if verifConfig("atCap") == 1 {
		bc.appDB.SetEmission(new(big.Int).Set(bc.rewardsCounter.TotalEmissionBig()))
	} else {
		verifAssume(bc.appDB.Emission().Cmp(bc.rewardsCounter.TotalEmissionBig()) < 0)
	}
	present := verifSetStatuses(u)
	vals := st.Validators.GetValidators()
	// config "toDrop": the first validator was switched off by a transaction of
	// this block (SetCandidateOff marks it to be dropped): whatever it accrued
	// so far returns to the pot and it takes no share of this block, even if it
	// signed the previous one
	dropped := make([]bool, len(vals))
	returned := big.NewInt(0)
	if verifConfig("toDrop") == 1 {
		vals[0].SetAccumReward(verifBigNN("accum.dropped"))
		returned.Set(vals[0].GetAccumReward())
		st.Validators.SetToDrop(vals[0].PubKey)
		dropped[0] = true
	}
	var acc0 []*big.Int
	total := big.NewInt(0)
	for i, v := range vals {
		acc0 = append(acc0, new(big.Int).Set(v.GetAccumReward()))
		if present[i] && !dropped[i] {
			total.Add(total, v.GetTotalBipStake())
		}
	}
	heights := []uint64{}
	ledger0 := verifStakeLedger(u, heights)
	emission0 := new(big.Int).Set(bc.appDB.Emission())
	slashed0 := new(big.Int).Set(st.App.GetTotalSlashed())
	zero0 := st.Accounts.GetBalance(types.Address{}, 0)

	bc.EndBlock(abciTypes.RequestEndBlock{Height: H})

	ledger1 := verifStakeLedger(u, heights)
	// the reward pool has been distributed: it is no longer a holding
	ledger1.Sub(ledger1, bc.rewards)
	dEmission := new(big.Int).Sub(bc.appDB.Emission(), emission0)
	verifAssert("C01:base-ledger-moves-with-emission", new(big.Int).Sub(ledger1, ledger0).Cmp(dEmission) == 0)
	pot := new(big.Int).Add(fees, reward)
	if verifConfig("atCap") == 1 {
		pot = new(big.Int).Set(fees)
		verifAssert("C28:cap=>no-emission", dEmission.Sign() == 0)
		verifAssert("C28:cap=>nothing-to-zero-address", st.Accounts.GetBalance(types.Address{}, 0).Cmp(zero0) == 0)
	} else {
		verifAssert("C28:emission+=safeReward", dEmission.Cmp(safe) == 0)
		verifAssert("C28:withheld-part-to-zero-address", new(big.Int).Sub(st.Accounts.GetBalance(types.Address{}, 0), zero0).Cmp(new(big.Int).Sub(safe, reward)) == 0)
	}
	pot.Add(pot, returned)
	paid := big.NewInt(0)
	for i, v := range vals {
		if dropped[i] {
			verifAssert("C19:dropped-validator-accrues-nothing", v.GetAccumReward().Sign() == 0)
			continue
		}
		got := new(big.Int).Sub(v.GetAccumReward(), acc0[i])
		paid.Add(paid, got)
		if present[i] && total.Sign() > 0 {
			want := new(big.Int).Div(new(big.Int).Mul(pot, v.GetTotalBipStake()), total)
			verifAssert("C19:present-accrues-pro-rata", got.Cmp(want) == 0)
		} else {
			verifAssert("C19:not-present-accrues-nothing", got.Sign() == 0)
		}
	}
	rem := new(big.Int).Sub(st.App.GetTotalSlashed(), slashed0)
	verifAssert("C19:accrued+remainder=pot", new(big.Int).Add(paid, rem).Cmp(pot) == 0)
	verifAssert("C19:remainder>=0", rem.Sign() >= 0)
	verifAssert("C19:never-over-paid", paid.Cmp(pot) <= 0)
}

// C19/C07: payout block.  Every validator's accrued reward is split 10% DAO,
// 10% developers, commission, delegators pro rata of bip stake; what is paid
// never exceeds what was accrued (no stake is locked for x3 here).
func VerifHarness_Block_EndPayout() {
	u := verifBlockUniverse()
	bc, st := u.bc, u.bc.stateDeliver
	const H = 1440 // multiple of the 720-block payout period
	st.App.SetReward(big.NewInt(0), big.NewInt(0))
	bc.appDB.SetEmission(new(big.Int).Set(bc.rewardsCounter.TotalEmissionBig())) // no new emission: isolate the payout
	verifSetStatuses(u)
	vals := st.Validators.GetValidators()
	accrued := big.NewInt(0)
	for i, v := range vals {
		a := verifBigNN("accum" + string(rune('1'+i)))
		v.SetAccumReward(a)
		accrued.Add(accrued, a)
	}
	if verifConfig("evidence") == 1 {
		// byzantine evidence against P in the same block (composed step)
		verifBegin(u, H, []types.Pubkey{u.P}, 3)
		// the dropped validator's accrued reward returns to the pool in EndBlock
		// and is re-distributed to the present validators before the payout
		accrued = big.NewInt(0)
		for _, v := range vals {
			accrued.Add(accrued, v.GetAccumReward())
		}
	}
	slashed0 := new(big.Int).Set(st.App.GetTotalSlashed())
	upd0 := verifUpdatesTotal(u)
	pool0 := new(big.Int).Set(bc.rewards)

	bc.EndBlock(abciTypes.RequestEndBlock{Height: H})

	paid := new(big.Int).Sub(verifUpdatesTotal(u), upd0)
	rem := new(big.Int).Sub(st.App.GetTotalSlashed(), slashed0)
	left := big.NewInt(0)
	for _, v := range st.Validators.GetValidators() {
		left.Add(left, v.GetAccumReward())
	}
	_ = pool0
	verifAssert("C19:payout-never-exceeds-accrued", paid.Cmp(accrued) <= 0)
	verifAssert("C19:paid+remainder+left=accrued", new(big.Int).Add(new(big.Int).Add(paid, rem), left).Cmp(accrued) == 0)
}

func verifUpdatesTotal(u *verifBlockU) *big.Int {
	sum := big.NewInt(0)
	for _, pk := range []types.Pubkey{u.P, u.Q} {
		if !u.bc.stateDeliver.Candidates.Exists(pk) {
			continue
		}
		for _, s := range u.bc.stateDeliver.Candidates.VerifUpdates(pk) {
			sum.Add(sum, s.Value)
		}
		for _, s := range u.bc.stateDeliver.Candidates.VerifStakes(pk) {
			sum.Add(sum, s.Value)
		}
	}
	return sum
}

// verifBeginVotes is BeginBlock with a commit info that mentions only the
// validators selected by `mention`, each reported as signed or not.
func verifBeginVotes(u *verifBlockU, height uint64, mention, signed []bool) {
	var votes []abciTypes.VoteInfo
	for i, v := range u.bc.stateDeliver.Validators.GetValidators() {
		if !mention[i] {
			continue
		}
		a := v.GetAddress()
		votes = append(votes, abciTypes.VoteInfo{Validator: abciTypes.Validator{Address: a[:], Power: 1}, SignedLastBlock: signed[i]})
	}
	u.bc.BeginBlock(abciTypes.RequestBeginBlock{
		Header:         tmproto.Header{Height: int64(height), Time: time.Unix(1704067200+3*3600, 0).UTC()},
		LastCommitInfo: abciTypes.LastCommitInfo{Votes: votes},
	})
}

// C19 (statuses are per block): two consecutive blocks through the real
// BeginBlock and EndBlock.  In the first one both validators are reported as
// having signed; in the second one each validator is, by harness choice,
// reported signed, reported absent, or not mentioned in the commit info at all.
// Rewards of the second block accrue only to the validators recorded as
// present in *that* block, pro rata of their stakes.
func VerifHarness_Block_TwoBlocksStatuses() {
	u := verifBlockUniverse()
	bc, st := u.bc, u.bc.stateDeliver
	const H = 1001
	reward := verifBigNN("reward")
	st.App.SetReward(reward, reward)
	// far from the emission cap (the cap logic is C28's subject)
	bc.appDB.SetEmission(big.NewInt(1000))
	verifAssume(reward.Cmp(new(big.Int).Exp(big.NewInt(10), big.NewInt(24), nil)) <= 0)
	vals := st.Validators.GetValidators()
	all := make([]bool, len(vals))
	for i := range all {
		all[i] = true
	}
	verifBeginVotes(u, H, all, all)
	bc.EndBlock(abciTypes.RequestEndBlock{Height: H})

	mention := make([]bool, len(vals))
	signed := make([]bool, len(vals))
	for i := range vals {
		switch verifChoice("second."+string(rune('1'+i)), 3) {
		case 0:
			mention[i], signed[i] = true, true
		case 1:
			mention[i], signed[i] = true, false
		}
	}
	verifBeginVotes(u, H+1, mention, signed)
	fees := verifBigNN("fees")
	bc.rewards.Set(fees)
	var acc0 []*big.Int
	total := big.NewInt(0)
	for i, v := range vals {
		acc0 = append(acc0, new(big.Int).Set(v.GetAccumReward()))
		if signed[i] && !v.IsToDrop() {
			total.Add(total, v.GetTotalBipStake())
		}
	}
	bc.EndBlock(abciTypes.RequestEndBlock{Height: H + 1})
	pot := new(big.Int).Add(fees, reward)
	for i, v := range vals {
		got := new(big.Int).Sub(v.GetAccumReward(), acc0[i])
		if signed[i] && !v.IsToDrop() && total.Sign() > 0 {
			want := new(big.Int).Div(new(big.Int).Mul(pot, v.GetTotalBipStake()), total)
			verifAssert("C19:present-accrues-pro-rata", got.Cmp(want) == 0)
		} else {
			verifAssert("C19:not-present-accrues-nothing", got.Sign() == 0)
		}
	}
}
