package minter

import (
	"context"
	"io"
	"math/big"
	"os"
	"sync"
	"time"

	"github.com/cosmos/cosmos-sdk/snapshots"
	tmlog "github.com/tendermint/tendermint/libs/log"

	"github.com/MinterTeam/minter-go-node/cmd/utils"
	"github.com/MinterTeam/minter-go-node/config"
	"github.com/MinterTeam/minter-go-node/coreV2/appdb"
	eventsdb "github.com/MinterTeam/minter-go-node/coreV2/events"
	"github.com/MinterTeam/minter-go-node/coreV2/rewards"
	"github.com/MinterTeam/minter-go-node/coreV2/types"
	snapshottypes "github.com/cosmos/cosmos-sdk/snapshots/types"
	abciTypes "github.com/tendermint/tendermint/abci/types"
	tmproto "github.com/tendermint/tendermint/proto/tendermint/types"
	db "github.com/tendermint/tm-db"
)

// verifNodeOn assembles a Blockchain over given storages (see verifNode).
func verifNodeOn(adb *appdb.AppDB, storages *utils.Storage) *Blockchain {
	adb.SetStateDB(storages.StateDB())
	cfg := &config.Config{}
	cfg.StateCacheSize = 1
	cfg.KeepLastStates = 100
	bc := &Blockchain{
		appDB:                           adb,
		eventsDB:                        &eventsdb.MockEvents{},
		storages:                        storages,
		rewards:                         big.NewInt(0),
		rewardsCounter:                  rewards.NewReward(),
		currentMempool:                  &sync.Map{},
		cfg:                             cfg,
		stopChan:                        context.Background(),
		updateStakesAndPayRewardsPeriod: 720,
		expiredOrdersPeriod:             types.GetExpireOrdersPeriod(),
		stopOk:                          make(chan struct{}),
		knownUpdates:                    map[string]struct{}{V3: {}, V310: {}, V320: {}, V330: {}},
		executor:                        GetExecutor(V3),
		validatorsStatuses:              map[types.TmAddress]int8{},
	}
	// NewMinterBlockchain: a data directory that already has a start height
	if adb.GetStartHeight() != 0 {
		bc.initState()
	}
	return bc
}

// C09 / C29 at node level, from the chain's first block.  The producer goes
// through the app-DB and state steps of Blockchain.InitChain for a genesis with
// initial height `initial`+1 (config "initial"; the genesis JSON itself is not
// decoded: the block universe stands for its content), i.e. SetStartHeight,
// version table, initState, state import, the genesis Commit of the state,
// SetLastHeight, emission, price and their Save calls; then executes the first
// block through the real BeginBlock / EndBlock / Commit.
//
// config "mode" = 0 (C09): the node is stopped and started again over the same
// disks (NewMinterBlockchain's path: initState if a start height is on disk,
// otherwise lazily): it must hold the state the stopped node had committed.
// config "mode" = 1 (C29): a snapshot of the committed height is restored into
// a fresh node, which must report the producer's height and hash and hold the
// producer's state.
func VerifHarness_Node_FirstBlockThenRestartOrSync() {
	types.CurrentChainID = types.ChainMainnet
	initial := uint64(verifConfig("initial"))
	pfx := "C09:restart:"
	if verifConfig("mode") == 1 {
		pfx = "C29:first-block:"
	}
	if initial == 0 {
		// a chain whose genesis has initial_height 1: labelled apart, so that the
		// recorded finding F15 (tree versions one ahead of heights on such chains)
		// cannot mask a violation on chains that start higher
		pfx += "chain-from-height-1:"
	}
	disk := db.NewMemDB()
	storages := utils.NewStorage("", "")
	a1 := appdb.VerifNewAppDB(disk)
	bc1 := verifNodeOn(a1, storages)

	// ---- InitChain
	a1.SetStartHeight(initial)
	for _, v := range []string{V3, V310, V320, V330} {
		a1.AddVersion(v, initial)
	}
	bc1.initState()
	verifBlockUniverseOn(bc1) // stands for stateDeliver.Import(genesis)
	bc1.stateDeliver.Checker.Reset()
	reward := verifBigNN("reward")
	bc1.stateDeliver.App.SetReward(reward, reward)
	verifAssume(reward.Cmp(new(big.Int).Exp(big.NewInt(10), big.NewInt(24), nil)) <= 0)
	if _, err := bc1.stateDeliver.Commit(); err != nil {
		panic(err)
	}
	a1.SetLastHeight(initial)
	a1.SetEmission(verifBigPos("emission"))
	a1.SetPrice(time.Unix(1704000000, 0).UTC(), verifBigPos("price.r0"), verifBigPos("price.r1"), verifBigNN("price.last"), false)
	a1.SaveStartHeight()
	a1.SaveVersions()
	a1.SaveEmission()
	a1.SavePrice()
	a1.FlushValidators()

	// ---- the chain's first block
	h := int64(initial) + 1
	var votes []abciTypes.VoteInfo
	for _, v := range bc1.stateDeliver.Validators.GetValidators() {
		a := v.GetAddress()
		votes = append(votes, abciTypes.VoteInfo{Validator: abciTypes.Validator{Address: a[:], Power: 1}, SignedLastBlock: true})
	}
	block := func(height int64) {
		bc1.BeginBlock(abciTypes.RequestBeginBlock{
			Header:         tmproto.Header{Height: height, Time: time.Unix(1704067200+3*3600+5*height, 0).UTC()},
			LastCommitInfo: abciTypes.LastCommitInfo{Votes: votes},
		})
		bc1.EndBlock(abciTypes.RequestEndBlock{Height: height})
	}
	if verifConfig("viaCommit") == 1 {
		// one more block first, so that the window of block times has two entries
		block(h)
		bc1.Commit()
		h++
	}
	block(h)
	var store *snapshots.Store
	if verifConfig("mode") == 1 && verifConfig("viaCommit") == 1 {
		// the snapshot is taken the way the node takes it: Commit itself spawns
		// Blockchain.snapshot for a height on the snapshot interval, which asks
		// the SDK manager, which calls AppDB.Snapshot
		dir, err := os.MkdirTemp("", "verif-snapshots")
		if err != nil {
			panic(err)
		}
		defer os.RemoveAll(dir)
		store, err = snapshots.NewStore(db.NewMemDB(), dir)
		if err != nil {
			panic(err)
		}
		bc1.snapshotManager = snapshots.NewManager(store, a1)
		bc1.snapshotInterval = 1
		bc1.logger = tmlog.NewNopLogger()
	}
	bc1.Commit()

	var bc2 *Blockchain
	if verifConfig("mode") == 0 {
		// stop and start again over the same disks
		bc2 = verifNodeOn(appdb.VerifNewAppDB(disk), storages)
	} else {
		var chunks <-chan io.ReadCloser
		var err error
		if store != nil {
			// wait for the background snapshot (natively a goroutine)
			for n := 0; n < 500; n++ {
				if s, _ := store.Get(uint64(h), snapshottypes.CurrentFormat); s != nil {
					break
				}
				time.Sleep(10 * time.Millisecond)
			}
			var s *snapshottypes.Snapshot
			s, chunks, err = store.Load(uint64(h), snapshottypes.CurrentFormat)
			if err == nil && s == nil {
				verifAssert(pfx+"snapshot-of-the-committed-height-succeeds", false)
				return
			}
		} else {
			a1.WG.Add(1)
			chunks, err = a1.Snapshot(uint64(h), snapshottypes.CurrentFormat)
		}
		verifAssert(pfx+"snapshot-of-the-committed-height-succeeds", err == nil)
		if err != nil {
			return
		}
		a2 := appdb.VerifNewAppDB(db.NewMemDB())
		bc2 = verifNodeOn(a2, utils.NewStorage("", ""))
		if err := a2.Restore(uint64(h), snapshottypes.CurrentFormat, chunks, nil); err != nil {
			verifAssert(pfx+"restore-of-an-honest-snapshot-succeeds", false)
			return
		}
		verifAssert(pfx+"app-db-agrees", appdb.VerifDiffers(a1, a2) == "")
	}
	i1, i2 := bc1.Info(abciTypes.RequestInfo{}), bc2.Info(abciTypes.RequestInfo{})
	verifAssert(pfx+"info-height", i1.LastBlockHeight == i2.LastBlockHeight && i1.LastBlockHeight == h)
	verifAssert(pfx+"info-app-hash", verifSameBytes(i1.LastBlockAppHash, i2.LastBlockAppHash))
	if bc2.stateDeliver == nil {
		bc2.initState() // what the next BeginBlock does first
	}
	// the state the second node works from is the one the first node committed
	la, lb := verifLeaves29(bc1), verifLeaves29(bc2)
	verifAssert(pfx+"state-leaf-count", len(la) == len(lb))
	if len(la) != len(lb) {
		return
	}
	same := true
	for i := range la {
		same = same && verifSameBytes(la[i].k, lb[i].k) && verifDeepEq(la[i].v, lb[i].v)
	}
	verifAssert(pfx+"state-is-the-committed-one", same)
}
