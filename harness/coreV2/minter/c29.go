package minter

import (
	"context"
	"math/big"
	"sync"
	"time"

	"github.com/MinterTeam/minter-go-node/cmd/utils"
	"github.com/MinterTeam/minter-go-node/config"
	"github.com/MinterTeam/minter-go-node/coreV2/appdb"
	eventsdb "github.com/MinterTeam/minter-go-node/coreV2/events"
	"github.com/MinterTeam/minter-go-node/coreV2/rewards"
	"github.com/MinterTeam/minter-go-node/coreV2/types"
	snapshottypes "github.com/cosmos/cosmos-sdk/snapshots/types"
	abciTypes "github.com/tendermint/tendermint/abci/types"
	tmproto "github.com/tendermint/tendermint/proto/tendermint/types"
	db "github.com/tendermint/tm-db"
)

// verifNode assembles a Blockchain the way NewMinterBlockchain does for a data
// directory without a start height: no state yet (initState runs at InitChain,
// or lazily at the first BeginBlock of a state-synced node).
func verifNode(adb *appdb.AppDB) *Blockchain {
	storages := utils.NewStorage("", "")
	adb.SetStateDB(storages.StateDB())
	cfg := &config.Config{}
	cfg.StateCacheSize = 1
	cfg.KeepLastStates = 1
	return &Blockchain{
		appDB:                           adb,
		eventsDB:                        &eventsdb.MockEvents{},
		storages:                        storages,
		rewards:                         big.NewInt(0),
		rewardsCounter:                  rewards.NewReward(),
		currentMempool:                  &sync.Map{},
		cfg:                             cfg,
		stopChan:                        context.Background(),
		updateStakesAndPayRewardsPeriod: 720,
		expiredOrdersPeriod:             types.GetExpireOrdersPeriod(),
		stopOk:                          make(chan struct{}),
		knownUpdates:                    map[string]struct{}{V3: {}, V310: {}, V320: {}, V330: {}},
		executor:                        GetExecutor(V3),
		validatorsStatuses:              map[types.TmAddress]int8{},
	}
}

type verifLeaf29 struct{ k, v []byte }

func verifLeaves29(bc *Blockchain) []verifLeaf29 {
	var out []verifLeaf29
	bc.stateDeliver.Tree().GetLastImmutable().Iterate(func(k, v []byte) bool {
		out = append(out, verifLeaf29{k, v})
		return false
	})
	return out
}

// verifSameState29: same tree version and the same leaves.
func verifSameState29(tag string, a, b *Blockchain) {
	verifAssert("C29:"+tag+":state-version", a.stateDeliver.Tree().Version() == b.stateDeliver.Tree().Version())
	la, lb := verifLeaves29(a), verifLeaves29(b)
	verifAssert("C29:"+tag+":state-leaf-count", len(la) == len(lb))
	if len(la) != len(lb) {
		return
	}
	for i := range la {
		verifAssert("C29:"+tag+":state-leaf-key", verifSameBytes(la[i].k, lb[i].k))
		verifAssert("C29:"+tag+":state-leaf-value", verifDeepEq(la[i].v, lb[i].v))
	}
}

func verifSameInfo29(tag string, a, b *Blockchain) {
	ia, ib := a.Info(abciTypes.RequestInfo{}), b.Info(abciTypes.RequestInfo{})
	verifAssert("C29:"+tag+":info-height", ia.LastBlockHeight == ib.LastBlockHeight)
	verifAssert("C29:"+tag+":info-app-hash", verifSameBytes(ia.LastBlockAppHash, ib.LastBlockAppHash))
}

// verifBlock29 runs one empty block and reports a crash instead of propagating it.
func verifBlock29(bc *Blockchain, req abciTypes.RequestBeginBlock) (e abciTypes.ResponseEndBlock, c abciTypes.ResponseCommit, crashed bool) {
	defer func() {
		if r := recover(); r != nil {
			crashed = true
		}
	}()
	bc.BeginBlock(req)
	e = bc.EndBlock(abciTypes.RequestEndBlock{Height: req.Header.Height})
	c = bc.Commit()
	return
}

// C29 (node level).  A producing node, assembled like NewMinterBlockchain and
// initialised by the real initState, holds two candidates with symbolic stakes
// (validators), executes block 1 through the real BeginBlock / EndBlock /
// Commit and takes a snapshot of height 1 with the real AppDB.Snapshot.  A
// fresh node restores it with the real AppDB.Restore.  Then:
//   - Info() of the restored node reports the producer's height and app hash
//     and every app-DB getter agrees;
//   - both nodes execute block 2 from the same requests (the restored one
//     initialising its state lazily in BeginBlock): same validator updates,
//     same commit response, same Info, same app-DB answers, same state tree
//     version and leaves, same emission.
// In block 2 each validator is reported present or absent by harness choice.
//
// Stream and IAVL export/import are the model of gosym/snapshot.go; the SDK
// snapshot manager and the ABCI glue of snapshots.go are outside the harness.
func VerifHarness_C29_RestoredNodeContinues() {
	types.CurrentChainID = types.ChainMainnet
	a1 := appdb.VerifNewAppDB(db.NewMemDB())
	a1.AddVersion(V3, 0)
	a1.AddVersion(V310, 0)
	a1.AddVersion(V320, 0)
	a1.AddVersion(V330, 0)
	a1.SetEmission(verifBigPos("emission"))
	a1.SetPrice(time.Unix(1704000000, 0).UTC(), verifBigPos("price.r0"), verifBigPos("price.r1"), verifBigNN("price.last"), false)
	bc1 := verifNode(a1)
	bc1.initState()
	u := verifBlockUniverseOn(bc1)
	bc1.stateDeliver.Checker.Reset() // the fixture created stakes outside a transaction (genesis import resets likewise)
	reward := verifBigNN("reward")
	bc1.stateDeliver.App.SetReward(reward, reward)
	verifAssume(reward.Cmp(new(big.Int).Exp(big.NewInt(10), big.NewInt(24), nil)) <= 0)

	request := func(height int64, signed []bool) abciTypes.RequestBeginBlock {
		var votes []abciTypes.VoteInfo
		for i, v := range bc1.stateDeliver.Validators.GetValidators() {
			a := v.GetAddress()
			votes = append(votes, abciTypes.VoteInfo{Validator: abciTypes.Validator{Address: a[:], Power: 1}, SignedLastBlock: signed[i]})
		}
		return abciTypes.RequestBeginBlock{
			Header:         tmproto.Header{Height: height, Time: time.Unix(1704067200+3*3600+5*height, 0).UTC()},
			LastCommitInfo: abciTypes.LastCommitInfo{Votes: votes},
		}
	}
	n := len(bc1.stateDeliver.Validators.GetValidators())
	all := make([]bool, n)
	for i := range all {
		all[i] = true
	}
	// block 1 on the producer
	bc1.BeginBlock(request(1, all))
	bc1.EndBlock(abciTypes.RequestEndBlock{Height: 1})
	bc1.Commit()

	a1.WG.Add(1)
	chunks, err := a1.Snapshot(1, snapshottypes.CurrentFormat)
	verifAssert("C29:snapshot-of-the-committed-height-succeeds", err == nil)
	if err != nil {
		return
	}
	a2 := appdb.VerifNewAppDB(db.NewMemDB())
	bc2 := verifNode(a2)
	bc2.Info(abciTypes.RequestInfo{}) // Tendermint's handshake precedes state sync
	err = a2.Restore(1, snapshottypes.CurrentFormat, chunks, nil)
	verifAssert("C29:restore-of-an-honest-snapshot-succeeds", err == nil)
	if err != nil {
		return
	}
	verifSameInfo29("after-restore", bc1, bc2)
	verifAssert("C29:after-restore:app-db-agrees", appdb.VerifDiffers(a1, a2) == "")

	// block 2 on both
	signed := make([]bool, n)
	for i := range signed {
		signed[i] = verifChoice("signed."+string(rune('1'+i)), 2) == 0
	}
	req := request(2, signed)
	var ends [2]abciTypes.ResponseEndBlock
	var commits [2]abciTypes.ResponseCommit
	for i, bc := range []*Blockchain{bc1, bc2} {
		if i == 0 {
			// a panic of the producer is not this property's subject (C07)
			bc.BeginBlock(req)
			ends[i] = bc.EndBlock(abciTypes.RequestEndBlock{Height: 2})
			commits[i] = bc.Commit()
			continue
		}
		var crashed bool
		ends[i], commits[i], crashed = verifBlock29(bc, req)
		verifAssert("C29:restored-node-executes-the-next-block", !crashed)
		if crashed {
			return
		}
	}
	verifAssert("C29:next-block:validator-updates", verifDeepEq(ends[0].ValidatorUpdates, ends[1].ValidatorUpdates))
	verifAssert("C29:next-block:commit-app-hash", verifSameBytes(commits[0].Data, commits[1].Data))
	verifSameInfo29("next-block", bc1, bc2)
	verifAssert("C29:next-block:app-db-agrees", appdb.VerifDiffers(a1, a2) == "")
	verifAssert("C29:next-block:emission", bc1.GetEmission().Cmp(bc2.GetEmission()) == 0)
	verifSameState29("next-block", bc1, bc2)
	_ = u
}
