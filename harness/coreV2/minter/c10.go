package minter

import (
	"math/big"
	"sync/atomic"
	"time"

	"github.com/MinterTeam/minter-go-node/coreV2/appdb"
	eventsdb "github.com/MinterTeam/minter-go-node/coreV2/events"
	"github.com/MinterTeam/minter-go-node/coreV2/state"
	abciTypes "github.com/tendermint/tendermint/abci/types"
	db "github.com/tendermint/tm-db"
)

// verifCrashDB passes reads through and applies only the first `budget`
// writes: the process died after that many app-DB writes.
type verifCrashDB struct {
	db.DB
	budget int
	writes int
}

func (c *verifCrashDB) Set(k, v []byte) error {
	c.writes++
	if c.writes > c.budget {
		return nil
	}
	return c.DB.Set(k, v)
}
func (c *verifCrashDB) SetSync(k, v []byte) error { return c.Set(k, v) }
func (c *verifCrashDB) Delete(k []byte) error {
	c.writes++
	if c.writes > c.budget {
		return nil
	}
	return c.DB.Delete(k)
}
func (c *verifCrashDB) DeleteSync(k []byte) error { return c.Delete(k) }

// C10 (application-level write order): block h-1 is fully committed; the
// process dies after the k-th app-DB write of Blockchain.Commit for block h
// (config "crashAfter" = k; the state tree's SaveVersion, which precedes those
// writes, is atomic by contract).  A restarted node reads the app DB:
//   R1  Info() reports (h-1, hash(h-1)) or (h, hash(h)), never a mixed pair;
//   R3  if it reports h, emission / price / versions already equal the
//       uncrashed node's (if it reports h-1 Tendermint replays block h, which
//       recomputes them from the h-1 values that are still on disk).
func VerifHarness_C10_CommitCrash() {
	disk := db.NewMemDB()
	bc := verifChain()
	// the state tree of a chain that started at height 40 and keeps one old
	// state (the minimum the node's configuration accepts): versions 40 and 41
	// are on disk when block 42 is committed
	sdb := db.NewMemDB()
	st, err := state.NewStateV3(0, sdb, &eventsdb.MockEvents{}, 1, 1, 40)
	if err != nil {
		panic(err)
	}
	for k := 0; k < 2; k++ {
		if _, err := st.Commit(); err != nil {
			panic(err)
		}
	}
	bc.stateDeliver = st
	bc.stateCheck = state.NewCheckState(st)
	// block h-1, written completely
	full := appdb.VerifNewAppDB(disk)
	full.AddVersion(V3, 0)
	e0 := verifBigPos("emission.prev")
	full.SetEmission(e0)
	t0 := time.Unix(1704000000, 0).UTC()
	full.SetPrice(t0, verifBigPos("p.r0"), verifBigPos("p.r1"), verifBigNN("p.last"), false)
	hPrev := make([]byte, 32)
	hPrev[0] = 7
	full.SetLastBlockHash(hPrev)
	full.SetLastHeight(41)
	full.AddBlocksTime(time.Unix(1704000000, 0).UTC())
	full.SaveBlocksTime()
	full.SaveVersions()
	full.SaveEmission()
	full.SavePrice()

	// block h = 42 in a continuing process whose app DB dies after k writes
	crash := &verifCrashDB{DB: disk, budget: verifConfig("crashAfter")}
	adb := appdb.VerifNewAppDB(crash)
	adb.GetVersions()
	bc.appDB = adb
	atomic.StoreUint64(&bc.height, 42)
	e1 := verifBigPos("emission.new")
	adb.SetEmission(e1)
	if verifConfig("newPrice") == 1 {
		adb.SetPrice(time.Unix(1704090000, 0).UTC(), verifBigPos("p.r0b"), verifBigPos("p.r1b"), verifBigNN("p.lastb"), false)
	}
	adb.SetValidators(abciTypes.ValidatorUpdates{{Power: 5}})
	adb.AddBlocksTime(time.Unix(1704000005, 0).UTC())
	res := bc.Commit()

	// restart
	re := appdb.VerifNewAppDB(disk)
	bc2 := &Blockchain{appDB: re}
	info := bc2.Info(abciTypes.RequestInfo{})
	isPrev := info.LastBlockHeight == 41 && len(info.LastBlockAppHash) == 32 && info.LastBlockAppHash[0] == 7
	isNew := info.LastBlockHeight == 42 && len(info.LastBlockAppHash) == len(res.Data) && verifSameBytes(info.LastBlockAppHash, res.Data)
	// the two mixed pairs carry different labels: (h-1, hash(h)) is the recorded
	// finding F7 (the hash is written before the height); (h, hash(h-1)) would make
	// Tendermint skip the replay of block h and adopt a stale app hash
	oldHeightNewHash := info.LastBlockHeight == 41 && verifSameBytes(info.LastBlockAppHash, res.Data)
	newHeightOldHash := info.LastBlockHeight == 42 && len(info.LastBlockAppHash) == 32 && info.LastBlockAppHash[0] == 7 && !verifSameBytes(info.LastBlockAppHash, res.Data)
	verifAssert("C10:never-reports-old-height-with-new-hash", !oldHeightNewHash)
	verifAssert("C10:never-reports-new-height-with-old-hash", !newHeightOldHash)
	verifAssert("C10:info-pair-consistent", isPrev || isNew || oldHeightNewHash || newHeightOldHash)
	// the restarted node loads the state tree at the height it reports
	// (initState): that version must still be on disk, whatever was pruned
	_, errLoad := state.NewStateV3(uint64(info.LastBlockHeight), sdb, &eventsdb.MockEvents{}, 1, 1, 40)
	verifAssert("C10:reported-height-has-its-state-on-disk", errLoad == nil)
	if info.LastBlockHeight == 42 {
		verifAssert("C10:reported-height-has-its-emission", re.Emission().Cmp(e1) == 0)
		if verifConfig("newPrice") == 1 {
			tt, _, _, _, _ := re.GetPrice()
			verifAssert("C10:reported-height-has-its-price", tt.Unix() == 1704090000)
		}
	}
	sum, cnt := re.GetLastBlockTimeDelta()
	if info.LastBlockHeight == 41 {
		verifAssert("C10:replay-starts-from-previous-emission", re.Emission().Cmp(e0) == 0)
		// block 42 will be replayed: its time must not be in the window yet
		verifAssert("C10:replay-starts-from-previous-block-times", sum == 0 && cnt == 0)
	}
	if info.LastBlockHeight == 42 && isNew {
		verifNote("times", uint64(sum), uint64(cnt))
	}
	_ = big.NewInt
}

func verifSameBytes(a, b []byte) bool {
	if len(a) != len(b) {
		return false
	}
	for i := range a {
		if a[i] != b[i] {
			return false
		}
	}
	return true
}
