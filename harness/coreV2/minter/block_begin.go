package minter

import (
	"math/big"
	"time"

	"github.com/MinterTeam/minter-go-node/coreV2/state/candidates"
	"github.com/MinterTeam/minter-go-node/coreV2/types"
	abciTypes "github.com/tendermint/tendermint/abci/types"
	tmproto "github.com/tendermint/tendermint/proto/tendermint/types"
)

type verifBlockU struct {
	bc           *Blockchain
	P, Q         types.Pubkey
	ownerP       types.Address
	D1, D2       types.Address
	addrs        []types.Address
	stake1       *big.Int // D1's base-coin stake in P
	stake2       *big.Int // D2's base-coin stake in P
	stakeQ       *big.Int
}

func verifAddrN(b byte) types.Address {
	var a types.Address
	a[0] = b
	a[19] = b
	return a
}

// verifBlockUniverse: candidates P (a validator, online) and Q (online) with
// base-coin stakes of symbolic size; run on the testnet constants so that the
// unbond window (531 blocks) can be walked by the executor.
func verifBlockUniverse() *verifBlockU { return verifBlockUniverseOn(verifChain()) }

// verifBlockUniverseOn populates the state of a prepared chain.
func verifBlockUniverseOn(bc *Blockchain) *verifBlockU {
	types.CurrentChainID = types.ChainTestnet
	u := &verifBlockU{bc: bc, P: verifPubkey(1), Q: verifPubkey(2), ownerP: verifAddrN(9), D1: verifAddrN(1), D2: verifAddrN(2)}
	u.addrs = []types.Address{u.ownerP, u.D1, u.D2, {}}
	st := bc.stateDeliver
	st.Candidates.Create(u.ownerP, u.ownerP, u.ownerP, u.P, 10, 0, 0)
	st.Candidates.Create(u.ownerP, u.ownerP, u.ownerP, u.Q, 10, 0, 0)
	st.Candidates.SetOnline(u.P)
	st.Candidates.SetOnline(u.Q)
	minStake := new(big.Int).Mul(big.NewInt(1000), new(big.Int).Exp(big.NewInt(10), big.NewInt(18), nil))
	u.stake1, u.stake2, u.stakeQ = verifBigPos("stake.P.D1"), verifBigPos("stake.P.D2"), verifBigPos("stake.Q.D1")
	verifAssume(u.stake1.Cmp(minStake) >= 0)
	verifAssume(u.stakeQ.Cmp(minStake) >= 0)
	st.Candidates.Delegate(u.D1, u.P, 0, u.stake1, u.stake1)
	st.Candidates.Delegate(u.D2, u.P, 0, u.stake2, u.stake2)
	st.Candidates.Delegate(u.D1, u.Q, 0, u.stakeQ, u.stakeQ)
	st.Candidates.RecalculateStakesV2(1)
	st.Validators.SetNewValidators(st.Candidates.GetNewCandidates(4))
	return u
}

// verifStakeLedger sums base-coin holdings of the block universe: balances,
// stakes, pending updates, frozen funds at the given heights, total slashed,
// accumulated rewards and the block reward pool.
func verifStakeLedger(u *verifBlockU, heights []uint64) *big.Int {
	st := u.bc.stateDeliver
	sum := big.NewInt(0)
	for _, a := range u.addrs {
		sum.Add(sum, st.Accounts.GetBalance(a, 0))
	}
	for _, pk := range []types.Pubkey{u.P, u.Q} {
		if !st.Candidates.Exists(pk) {
			continue
		}
		for _, s := range st.Candidates.GetStakes(pk) {
			if s.Coin == 0 {
				sum.Add(sum, s.Value)
			}
		}
		for _, s := range st.Candidates.VerifUpdates(pk) {
			if s.Coin == 0 {
				sum.Add(sum, s.Value)
			}
		}
	}
	for _, h := range heights {
		for _, it := range st.FrozenFunds.VerifLive(h) {
			if it.Coin == 0 {
				sum.Add(sum, it.Value)
			}
		}
	}
	sum.Add(sum, st.App.GetTotalSlashed())
	for _, v := range st.Validators.GetValidators() {
		sum.Add(sum, v.GetAccumReward())
	}
	sum.Add(sum, u.bc.rewards)
	return sum
}

func verifSlash(v *big.Int) (rest, slashed *big.Int) {
	rest = new(big.Int).Div(new(big.Int).Mul(v, big.NewInt(95)), big.NewInt(100))
	return rest, new(big.Int).Sub(v, rest)
}

func verifBegin(u *verifBlockU, height uint64, byz []types.Pubkey, hour int) {
	var votes []abciTypes.VoteInfo
	for _, v := range u.bc.stateDeliver.Validators.GetValidators() {
		a := v.GetAddress()
		votes = append(votes, abciTypes.VoteInfo{Validator: abciTypes.Validator{Address: a[:], Power: 1}, SignedLastBlock: true})
	}
	var ev []abciTypes.Evidence
	for _, pk := range byz {
		a := u.bc.stateDeliver.Candidates.GetCandidate(pk).GetTmAddress()
		ev = append(ev, abciTypes.Evidence{Validator: abciTypes.Validator{Address: a[:], Power: 1}})
	}
	u.bc.BeginBlock(abciTypes.RequestBeginBlock{
		Header:              tmproto.Header{Height: int64(height), Time: time.Unix(1704067200+int64(hour)*3600, 0).UTC()},
		LastCommitInfo:      abciTypes.LastCommitInfo{Votes: votes},
		ByzantineValidators: ev,
	})
}

// C18/C16/C01/C07: BeginBlock at height H with byzantine evidence against
// validator P while frozen funds of P mature at H and later, one of them a
// pending move to Q, and a fund of the other candidate Q.
func VerifHarness_Block_ByzantineAndMaturity() {
	u := verifBlockUniverse()
	st := u.bc.stateDeliver
	const H = 1000
	unbond := types.GetUnbondPeriod()
	idP, idQ := st.Candidates.ID(u.P), st.Candidates.ID(u.Q)
	fNow, fMove, fLater, fLast, fQ := verifBigPos("ff.now"), verifBigPos("ff.move"), verifBigPos("ff.later"), verifBigPos("ff.last"), verifBigPos("ff.q")
	pP, pQ := u.P, u.Q
	st.FrozenFunds.AddFund(H, u.D1, &pP, idP, 0, fNow, 0)          // unbond of P's stake maturing now
	st.FrozenFunds.AddFund(H, u.D2, &pP, idP, 0, fMove, idQ)       // move P -> Q maturing now
	st.FrozenFunds.AddFund(H+10, u.D1, &pP, idP, 0, fLater, 0)     // unbond maturing later
	st.FrozenFunds.AddFund(H+unbond, u.D2, &pP, idP, 0, fLast, 0)  // last block of the unbond window
	st.FrozenFunds.AddFund(H+10, u.D2, &pQ, idQ, 0, fQ, 0)         // other candidate's fund
	heights := []uint64{H, H + 10, H + unbond}
	balD1, balD2 := st.Accounts.GetBalance(u.D1, 0), st.Accounts.GetBalance(u.D2, 0)
	slashed0 := new(big.Int).Set(st.App.GetTotalSlashed())
	ledger0 := verifStakeLedger(u, heights)

	byz := []types.Pubkey{}
	if verifConfig("evidence") == 1 {
		byz = append(byz, u.P)
	}
	verifBegin(u, H, byz, 3)

	ledger1 := verifStakeLedger(u, heights)
	verifAssert("C01:base-ledger-unchanged", ledger0.Cmp(ledger1) == 0)
	rNow, sNow := verifSlash(fNow)
	rMove, sMove := verifSlash(fMove)
	rLater, sLater := verifSlash(fLater)
	rLast, sLast := verifSlash(fLast)
	r1, s1 := verifSlash(u.stake1)
	r2, s2 := verifSlash(u.stake2)
	if verifConfig("evidence") != 1 {
		rNow, rMove, rLater, rLast = fNow, fMove, fLater, fLast
	}
	// C16: the plain item matures into the owner's balance, the move into Q
	verifAssert("C16:unbond-credited-to-balance", new(big.Int).Sub(st.Accounts.GetBalance(u.D1, 0), balD1).Cmp(rNow) == 0)
	verifAssert("C16:move-not-credited-to-balance", st.Accounts.GetBalance(u.D2, 0).Cmp(balD2) == 0)
	moved := big.NewInt(0)
	for _, s := range st.Candidates.VerifUpdates(u.Q) {
		if s.Owner == u.D2 && s.Coin == 0 {
			moved.Add(moved, s.Value)
		}
	}
	verifAssert("C16:move-credited-to-target-candidate", moved.Cmp(rMove) == 0)
	verifAssert("C16:matured-batch-deleted", len(st.FrozenFunds.VerifLive(H)) == 0)
	later := st.FrozenFunds.VerifLive(H + 10)
	verifAssert("C16:later-items-kept", len(later) == 2)
	if len(later) == 2 {
		verifAssert("C18:later-fund-of-P", later[0].Value.Cmp(rLater) == 0)
		verifAssert("C18:fund-of-other-candidate-untouched", later[1].Value.Cmp(fQ) == 0)
		verifAssert("C16:later-fund-keeps-owner", later[0].Address == u.D1 && later[1].Address == u.D2)
	}
	last := st.FrozenFunds.VerifLive(H + unbond)
	if verifConfig("evidence") == 1 {
		// C18: 5% (rounded up) of every stake and unbonding fund, the rest unbonded
		total := new(big.Int).Add(sNow, sMove)
		total.Add(total, sLater).Add(total, sLast).Add(total, s1).Add(total, s2)
		verifAssert("C18:total-slashed", new(big.Int).Sub(st.App.GetTotalSlashed(), slashed0).Cmp(total) == 0)
		verifAssert("C18:stakes-zeroed", len(st.Candidates.GetStakes(u.P)) == 0 || verifAllZero(u))
		verifAssert("C18:rest-frozen-at-unbond", len(last) == 3)
		if len(last) == 3 {
			verifAssert("C18:last-window-fund-slashed", last[0].Value.Cmp(rLast) == 0)
			// the two stakes are frozen in slot order; compare as a set
			a, b := last[1], last[2]
			if a.Address != u.D1 {
				a, b = b, a
			}
			verifAssert("C18:stake-rests-owners", a.Address == u.D1 && b.Address == u.D2)
			verifAssert("C18:stake1-rest", a.Value.Cmp(r1) == 0)
			verifAssert("C18:stake2-rest", b.Value.Cmp(r2) == 0)
			verifAssert("C16:unbonded-stake-is-plain-unbond", a.GetMoveToCandidateID() == 0 && b.GetMoveToCandidateID() == 0)
		}
		v := st.Validators.GetByTmAddress(st.Candidates.GetCandidate(u.P).GetTmAddress())
		verifAssert("C18:validator-dropped", v != nil && v.IsToDrop() && v.GetTotalBipStake().Sign() == 0)
	} else {
		verifAssert("C18:no-evidence-no-slash", st.App.GetTotalSlashed().Cmp(slashed0) == 0)
	}
	_ = candidates.CandidateStatusOnline
}

func verifAllZero(u *verifBlockU) bool {
	for _, s := range u.bc.stateDeliver.Candidates.GetStakes(u.P) {
		if s.Value.Sign() != 0 {
			return false
		}
	}
	return true
}

// C07/C16 (finding F5b): a stake move whose target candidate R is removed from
// the candidate list (as RecalculateStakesV2 does for candidates ranked beyond
// 100) before the move matures.  BeginBlock at the maturity height must not
// panic and the moved coins must not vanish.
func VerifHarness_Block_MoveTargetGone() {
	u := verifBlockUniverse()
	st := u.bc.stateDeliver
	const H = 1000
	R := verifPubkey(3)
	st.Candidates.Create(u.ownerP, u.ownerP, u.ownerP, R, 10, 0, 0)
	st.Candidates.SetOnline(R)
	idP, idR := st.Candidates.ID(u.P), st.Candidates.ID(R)
	fMove := verifBigPos("ff.move")
	pP := u.P
	st.FrozenFunds.AddFund(H, u.D2, &pP, idP, 0, fMove, idR)
	st.Candidates.DeleteCandidate(H-1, st.Candidates.GetCandidate(R))
	verifAssert("setup:target-removed", !st.Candidates.Exists(R))
	heights := []uint64{H, H + types.GetUnbondPeriod()}
	bal := st.Accounts.GetBalance(u.D2, 0)
	ledger0 := verifStakeLedger(u, heights)
	verifBegin(u, H, nil, 3)
	verifAssert("C01:base-ledger-unchanged", ledger0.Cmp(verifStakeLedger(u, heights)) == 0)
	verifAssert("C16:matured-batch-deleted", len(st.FrozenFunds.VerifLive(H)) == 0)
	_ = bal
}

// C28 (update window): BeginBlock recomputes the reward only on the first block
// of a stake period whose block time is between 12:00 and 14:59 UTC and more
// than 3 hours after the previous update, and only while the emission is below
// the cap; at the cap the reward is zero.  Heights, hours and gaps are harness
// choices (block times are concrete in the engine), the emission is symbolic.
func VerifHarness_C28_RewardWindow() {
	u := verifBlockUniverse()
	bc := u.bc
	st := bc.stateDeliver
	// reserves whose ratio is a power of two: the price is then exactly
	// representable in the 100-bit floats of the real build, so that a model's
	// value for the uninterpreted Pow can be fed back to the native replay
	// (the stub looks the application up by its exact arguments)
	bipReserve, usdtReserve := new(big.Int).Lsh(big.NewInt(1), 90), new(big.Int).Lsh(big.NewInt(1), 80)
	st.SwapV2.PairCreate(0, types.USDTID, bipReserve, usdtReserve)
	height := []uint64{721, 722, 1441, 1440}[verifChoice("height", 4)]
	hour := []int{11, 12, 14, 15}[verifChoice("hour", 4)]
	gap := []int64{3*3600 - 1, 3 * 3600, 3*3600 + 1}[verifChoice("gap", 3)]
	blockTime := int64(1704067200) + int64(hour)*3600
	prev := time.Unix(blockTime-gap, 0).UTC()
	bc.appDB.SetPrice(prev, new(big.Int).Set(bipReserve), new(big.Int).Set(usdtReserve), verifBigNN("prevReward"), false)
	st.App.SetReward(big.NewInt(777), big.NewInt(888))
	emission := bc.appDB.Emission()
	capReached := emission.Cmp(bc.rewardsCounter.TotalEmissionBig()) >= 0
	verifBegin(u, height, nil, hour)
	tNow, _, _, _, _ := bc.appDB.GetPrice()
	updated := tNow.Unix() == blockTime
	inWindow := height%720 == 1 && hour >= 12 && hour <= 14 && gap > 3*3600
	reward, safe := st.App.Reward()
	if capReached {
		verifAssert("C28:no-reward-once-the-cap-is-reached", reward.Sign() == 0 && safe.Sign() == 0)
		verifAssert("C28:no-price-update-at-the-cap", !updated)
		return
	}
	verifAssert("C28:reward-recomputed-exactly-in-the-update-window", updated == inWindow)
	// (that the reward in state is the recomputed one is decided by
	// VerifHarness_C28_Recovery, whose counterexamples do not depend on the value
	// of the uninterpreted Pow and therefore replay natively)
	if !inWindow {
		verifAssert("C28:reward-unchanged-outside-the-window", reward.Cmp(big.NewInt(777)) == 0 && safe.Cmp(big.NewInt(888)) == 0)
	}
}

// C28 (recovery): two reward updates with an idle BIP/USDT pool.  The first
// one sets the price-derived reward X; then the validators' share is switched
// off as after a price drop (stored reward 0); the next update, one stake
// period later, must bring the validators' reward in state to min(10 BIP, X)
// while the price-derived level stays X.
func VerifHarness_C28_Recovery() {
	u := verifBlockUniverse()
	bc := u.bc
	st := bc.stateDeliver
	bipReserve, usdtReserve := new(big.Int).Lsh(big.NewInt(1), 90), new(big.Int).Lsh(big.NewInt(1), 80)
	st.SwapV2.PairCreate(0, types.USDTID, bipReserve, usdtReserve)
	bc.appDB.SetEmission(big.NewInt(1000))
	day := int64(1704067200)
	bc.appDB.SetPrice(time.Unix(day-86400, 0).UTC(), new(big.Int).Set(bipReserve), new(big.Int).Set(usdtReserve), big.NewInt(1), false)
	verifBegin(u, 721, nil, 12)
	r1, x := st.App.Reward()
	verifAssert("C28:first-update-sets-the-price-derived-reward", r1.Cmp(x) == 0)
	// the validators' share has been switched off (a drop of 10% or worse happened)
	t1, p0, p1, _, _ := bc.appDB.GetPrice()
	bc.appDB.SetPrice(t1, p0, p1, big.NewInt(0), true)
	st.App.SetReward(big.NewInt(0), x)
	verifBegin(u, 1441, nil, 36) // 12:00 of the next day
	r2, x2 := st.App.Reward()
	ten := new(big.Int).Mul(big.NewInt(10), new(big.Int).Exp(big.NewInt(10), big.NewInt(18), nil))
	want := ten
	if x.Cmp(ten) < 0 {
		want = x
	}
	verifAssert("C28:price-derived-level-unchanged-by-an-idle-pool", x2.Cmp(x) == 0)
	verifAssert("C28:recovery-by-10-BIP-per-update", r2.Cmp(want) == 0)
}
