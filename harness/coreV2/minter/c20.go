package minter

import (
	"math/big"

	"github.com/MinterTeam/minter-go-node/coreV2/state/commission"
)

// verifStrictTwoThirds is the integer statement of "strictly more than 2/3".
func verifStrictTwoThirds(voted, total *big.Int) bool {
	return new(big.Int).Mul(voted, big.NewInt(3)).Cmp(new(big.Int).Mul(total, big.NewInt(2))) > 0
}

// The node compares the big.Float quotient voted/total (rounded to 64 bits)
// with float64(2./3.) = 6004799503160661 / 2^53, which is slightly below 2/3.
// The harness models big.Float over exact reals, so verdicts are only drawn
// outside a band of +-2^-60 around that constant (the 64-bit rounding of the
// quotient moves it by at most 2^-64 relative): verifAboveBand / verifBelowBand.
func verifBand(voted, total *big.Int, delta int64) int {
	n := new(big.Int).Add(new(big.Int).Lsh(big.NewInt(6004799503160661), 7), big.NewInt(delta)) // * 2^-60
	d := new(big.Int).Lsh(big.NewInt(1), 60)
	return new(big.Int).Mul(voted, d).Cmp(new(big.Int).Mul(n, total))
}
func verifAboveBand(voted, total *big.Int) bool { return verifBand(voted, total, 1) > 0 }
func verifBelowBand(voted, total *big.Int) bool { return verifBand(voted, total, -1) < 0 }

// verifAccepted asserts the two halves of "accepted => strictly more than 2/3".
func verifAccepted(tag string, voted, total *big.Int) {
	verifAssert("C20:"+tag+"=>not-below-threshold", !verifBelowBand(voted, total))
	if verifAboveBand(voted, total) {
		verifAssert("C20:"+tag+"=>strictly-more-than-2/3", verifStrictTwoThirds(voted, total))
	}
}

// C20: a halt takes effect iff the validators that voted for it hold strictly
// more than two thirds of the power present in the block.
func VerifHarness_C20_Halt() {
	bc := verifChain()
	n := verifConfig("validators")
	keys, stakes, present := verifValidators(bc, n)
	const h = 1000
	voted := big.NewInt(0)
	for i := 0; i < n; i++ {
		if verifBool("vote" + string(rune('1'+i))) {
			bc.stateDeliver.Halts.AddHaltBlock(h, keys[i])
			if present[i] {
				voted.Add(voted, stakes[i])
			}
		}
	}
	total := big.NewInt(0)
	for i, s := range stakes {
		if present[i] {
			total.Add(total, s)
		}
	}
	if total.Sign() == 0 {
		return // nobody present: the node substitutes total power 1; not a governance question
	}
	verifAssert("C20:total-power=sum-of-present", bc.totalPower.Cmp(total) == 0)
	halted := bc.isApplicationHalted(h)
	want := verifStrictTwoThirds(voted, total)
	if halted {
		verifAccepted("halt", voted, total)
	} else {
		verifAssert("C20:strictly-more-than-2/3=>halt", !want)
	}
	verifNote("halted", halted)
}

func verifPriceVote(send int64) []byte {
	p := commission.Price{Send: big.NewInt(send)}
	return p.Encode()
}

// C20: a commission proposal is adopted iff its supporters hold strictly more
// than 2/3 of the present power; with two competing proposals the one with
// the larger support is the one adopted.
func VerifHarness_C20_Commission() {
	bc := verifChain()
	n := verifConfig("validators")
	keys, stakes, present := verifValidators(bc, n)
	const h = 1000
	propA, propB := verifPriceVote(1), verifPriceVote(2)
	forA, forB, total := big.NewInt(0), big.NewInt(0), big.NewInt(0)
	for i := 0; i < n; i++ {
		w := big.NewInt(0)
		if present[i] {
			w = stakes[i]
		}
		total.Add(total, w)
		switch verifChoice("choice"+string(rune('1'+i)), 3) {
		case 1:
			bc.stateDeliver.Commission.AddVote(h, keys[i], propA)
			forA.Add(forA, w)
		case 2:
			bc.stateDeliver.Commission.AddVote(h, keys[i], propB)
			forB.Add(forB, w)
		}
	}
	if total.Sign() == 0 {
		return
	}
	res := bc.isUpdateCommissionsBlockV2(h)
	okA, okB := verifStrictTwoThirds(forA, total), verifStrictTwoThirds(forB, total)
	if len(res) == 0 {
		verifAssert("C20:A>2/3=>adopted", !okA)
		verifAssert("C20:B>2/3=>adopted", !okB)
	} else {
		isA := string(res) == string(propA)
		if isA {
			verifAccepted("adopted-A", forA, total)
		} else {
			verifAccepted("adopted-B", forB, total)
		}
	}
}

// C20: same rule for network-version votes.
func VerifHarness_C20_Network() {
	bc := verifChain()
	n := verifConfig("validators")
	keys, stakes, present := verifValidators(bc, n)
	const h = 1000
	forA, forB, total := big.NewInt(0), big.NewInt(0), big.NewInt(0)
	for i := 0; i < n; i++ {
		w := big.NewInt(0)
		if present[i] {
			w = stakes[i]
		}
		total.Add(total, w)
		switch verifChoice("choice"+string(rune('1'+i)), 3) {
		case 1:
			bc.stateDeliver.Updates.AddVote(h, keys[i], "vA")
			forA.Add(forA, w)
		case 2:
			bc.stateDeliver.Updates.AddVote(h, keys[i], "vB")
			forB.Add(forB, w)
		}
	}
	if total.Sign() == 0 {
		return
	}
	v, ok := bc.isUpdateNetworkBlockV2(h)
	okA, okB := verifStrictTwoThirds(forA, total), verifStrictTwoThirds(forB, total)
	if !ok {
		verifAssert("C20:A>2/3=>adopted", !okA)
		verifAssert("C20:B>2/3=>adopted", !okB)
	} else if v == "vA" {
		verifAccepted("adopted-A", forA, total)
	} else {
		verifAccepted("adopted-B", forB, total)
	}
}
