package minter

import (
	"math/big"

	"github.com/MinterTeam/minter-go-node/coreV2/state/commission"
)

// verifStrictTwoThirds is the integer statement of "strictly more than 2/3".
func verifStrictTwoThirds(voted, total *big.Int) bool {
	return new(big.Int).Mul(voted, big.NewInt(3)).Cmp(new(big.Int).Mul(total, big.NewInt(2))) > 0
}

// C20: a halt takes effect iff the validators that voted for it hold strictly
// more than two thirds of the power present in the block.
func VerifHarness_C20_Halt() {
	bc := verifChain()
	n := verifConfig("validators")
	keys, stakes := verifValidators(bc, n)
	const h = 1000
	voted := big.NewInt(0)
	for i := 0; i < n; i++ {
		if verifBool("vote" + string(rune('1'+i))) {
			bc.stateDeliver.Halts.AddHaltBlock(h, keys[i])
			voted.Add(voted, stakes[i])
		}
	}
	total := big.NewInt(0)
	for _, s := range stakes {
		total.Add(total, s)
	}
	verifAssert("total-power=sum", bc.totalPower.Cmp(total) == 0)
	halted := bc.isApplicationHalted(h)
	want := verifStrictTwoThirds(voted, total)
	if halted {
		verifAssert("C20:halt=>strictly-more-than-2/3", want)
	} else {
		verifAssert("C20:strictly-more-than-2/3=>halt", !want)
	}
	verifNote("halted", halted)
}

func verifPriceVote(send int64) []byte {
	p := commission.Price{Send: big.NewInt(send)}
	return p.Encode()
}

// C20: a commission proposal is adopted iff its supporters hold strictly more
// than 2/3 of the present power; with two competing proposals the one with
// the larger support is the one adopted.
func VerifHarness_C20_Commission() {
	bc := verifChain()
	n := verifConfig("validators")
	keys, stakes := verifValidators(bc, n)
	const h = 1000
	propA, propB := verifPriceVote(1), verifPriceVote(2)
	forA, forB, total := big.NewInt(0), big.NewInt(0), big.NewInt(0)
	for i := 0; i < n; i++ {
		total.Add(total, stakes[i])
		switch verifChoice("choice"+string(rune('1'+i)), 3) {
		case 1:
			bc.stateDeliver.Commission.AddVote(h, keys[i], propA)
			forA.Add(forA, stakes[i])
		case 2:
			bc.stateDeliver.Commission.AddVote(h, keys[i], propB)
			forB.Add(forB, stakes[i])
		}
	}
	res := bc.isUpdateCommissionsBlockV2(h)
	okA, okB := verifStrictTwoThirds(forA, total), verifStrictTwoThirds(forB, total)
	if len(res) == 0 {
		verifAssert("C20:A>2/3=>adopted", !okA)
		verifAssert("C20:B>2/3=>adopted", !okB)
	} else {
		isA := string(res) == string(propA)
		if isA {
			verifAssert("C20:adopted-A=>A>2/3", okA)
		} else {
			verifAssert("C20:adopted-B=>B>2/3", okB)
		}
	}
}

// C20: same rule for network-version votes.
func VerifHarness_C20_Network() {
	bc := verifChain()
	n := verifConfig("validators")
	keys, stakes := verifValidators(bc, n)
	const h = 1000
	forA, forB, total := big.NewInt(0), big.NewInt(0), big.NewInt(0)
	for i := 0; i < n; i++ {
		total.Add(total, stakes[i])
		switch verifChoice("choice"+string(rune('1'+i)), 3) {
		case 1:
			bc.stateDeliver.Updates.AddVote(h, keys[i], "vA")
			forA.Add(forA, stakes[i])
		case 2:
			bc.stateDeliver.Updates.AddVote(h, keys[i], "vB")
			forB.Add(forB, stakes[i])
		}
	}
	v, ok := bc.isUpdateNetworkBlockV2(h)
	okA, okB := verifStrictTwoThirds(forA, total), verifStrictTwoThirds(forB, total)
	if !ok {
		verifAssert("C20:A>2/3=>adopted", !okA)
		verifAssert("C20:B>2/3=>adopted", !okB)
	} else if v == "vA" {
		verifAssert("C20:adopted-A=>A>2/3", okA)
	} else {
		verifAssert("C20:adopted-B=>B>2/3", okB)
	}
}
