package minter

import (
	"math/big"

	"github.com/MinterTeam/minter-go-node/coreV2/types"
)

// C17 (powers): three online candidates with symbolic stakes of at least the
// validator minimum (and one below it); updateValidators must give every
// selected candidate the power floor(stake * 10^8 / total), at least 1, and
// select exactly the candidates with the minimum stake.
func VerifHarness_C17_Powers() {
	bc := verifChain()
	st := bc.stateDeliver
	min := new(big.Int).Mul(big.NewInt(1000), new(big.Int).Exp(big.NewInt(10), big.NewInt(18), nil))
	var keys []types.Pubkey
	var stakes []*big.Int
	for i := 0; i < 3; i++ {
		k := verifPubkey(byte(i + 1))
		a := types.Address{byte(i + 1)}
		s := verifBigPos("stake" + string(rune('1'+i)))
		if i < 2 {
			verifAssume(s.Cmp(min) >= 0)
		}
		st.Candidates.Create(a, a, a, k, 10, 1, 0)
		st.Candidates.SetOnline(k)
		st.Candidates.Delegate(a, k, 0, s, s)
		keys = append(keys, k)
		stakes = append(stakes, s)
	}
	updates := bc.updateValidators()
	third := stakes[2].Cmp(min) >= 0
	total := new(big.Int).Add(stakes[0], stakes[1])
	n := 2
	if third {
		total.Add(total, stakes[2])
		n = 3
	}
	verifAssert("C17:selected-exactly-the-candidates-with-minimum-stake", len(updates) == n)
	if len(updates) != n {
		return
	}
	vals := st.Validators.GetValidators()
	verifAssert("C17:state-validators-match-updates", len(vals) == n)
	for _, u := range updates {
		// find the candidate of this update by its stake recorded in the validator list
		matched := false
		for i := 0; i < n; i++ {
			want := new(big.Int).Div(new(big.Int).Mul(stakes[i], big.NewInt(100000000)), total)
			if want.Sign() == 0 {
				want = big.NewInt(1)
			}
			if big.NewInt(u.Power).Cmp(want) == 0 {
				matched = true
			}
		}
		verifAssert("C17:power-proportional-to-stake-rounded-down-at-least-1", matched)
		verifAssert("C17:power-positive", u.Power >= 1)
	}
	for i, v := range vals {
		_ = i
		ok := false
		for k := 0; k < n; k++ {
			if v.PubKey == keys[k] {
				ok = v.GetTotalBipStake().Cmp(stakes[k]) == 0
			}
		}
		verifAssert("C17:validator-stake-is-candidate-stake", ok)
	}
}
