package minter

// Fixtures of the block-level harnesses: a Blockchain value assembled directly
// (no Tendermint node, no LevelDB) over an empty state and app DB.

import (
	"context"
	"math/big"
	"sync"
	"time"

	"github.com/MinterTeam/minter-go-node/config"
	"github.com/MinterTeam/minter-go-node/coreV2/appdb"
	eventsdb "github.com/MinterTeam/minter-go-node/coreV2/events"
	"github.com/MinterTeam/minter-go-node/coreV2/rewards"
	"github.com/MinterTeam/minter-go-node/coreV2/state"
	"github.com/MinterTeam/minter-go-node/coreV2/types"
	"github.com/MinterTeam/minter-go-node/upgrades"
	db "github.com/tendermint/tm-db"
)

func verifPubkey(b byte) types.Pubkey {
	var p types.Pubkey
	p[0] = b
	p[31] = b
	return p
}

func verifChain() *Blockchain {
	types.CurrentChainID = types.ChainMainnet
	ev := &eventsdb.MockEvents{}
	st, err := state.NewStateV3(0, db.NewMemDB(), ev, 1, 1, 0)
	if err != nil {
		panic(err)
	}
	adb := appdb.VerifNewAppDB(db.NewMemDB())
	// the version table of a current chain: every hard fork already active
	adb.AddVersion(V3, 0)
	adb.AddVersion(V310, 1)
	adb.AddVersion(V320, 2)
	adb.AddVersion(V330, 3)
	adb.SetEmission(verifBigPos("emission"))
	adb.SetPrice(time.Unix(1704000000, 0).UTC(), verifBigPos("price.r0"), verifBigPos("price.r1"), verifBigNN("price.last"), false)
	bc := &Blockchain{
		appDB:                           adb,
		eventsDB:                        ev,
		stateDeliver:                    st,
		stateCheck:                      state.NewCheckState(st),
		rewards:                         big.NewInt(0),
		rewardsCounter:                  rewards.NewReward(),
		currentMempool:                  &sync.Map{},
		cfg:                             &config.Config{},
		stopChan:                        context.Background(),
		updateStakesAndPayRewardsPeriod: 720,
		expiredOrdersPeriod:             types.GetExpireOrdersPeriod(),
		stopOk:                          make(chan struct{}),
		knownUpdates:                    map[string]struct{}{V3: {}, V310: {}, V320: {}, V330: {}},
		executor:                        GetExecutor(V330),
		grace:                           upgrades.NewGrace(),
		validatorsStatuses:              map[types.TmAddress]int8{},
	}
	return bc
}

// verifValidators installs n validators with symbolic positive stakes and
// computes the powers.  Each validator's status in the block is a harness
// choice: reported present, reported absent, or missing from the commit info
// altogether (a validator that joined the set but is not yet in Tendermint's
// LastCommitInfo).  present[i] tells whether validator i counts as present.
func verifValidators(bc *Blockchain, n int) ([]types.Pubkey, []*big.Int, []bool) {
	var keys []types.Pubkey
	var stakes []*big.Int
	var present []bool
	for i := 0; i < n; i++ {
		k := verifPubkey(byte(i + 1))
		s := verifBigPos("stake" + string(rune('1'+i)))
		if verifConfig("stakeBits") > 0 {
			// bound needed by the FloatingPoint model of big.Float (total power < 2^64)
			verifAssume(s.Cmp(new(big.Int).Lsh(big.NewInt(1), uint(verifConfig("stakeBits")))) < 0)
		}
		bc.stateDeliver.Validators.Create(k, s)
		keys = append(keys, k)
		stakes = append(stakes, s)
	}
	for i, v := range bc.stateDeliver.Validators.GetValidators() {
		st := 0
		if verifConfig("statuses") == 1 {
			st = verifChoice("status"+string(rune('1'+i)), 3)
		}
		switch st {
		case 0:
			bc.validatorsStatuses[v.GetAddress()] = ValidatorPresent
		case 1:
			bc.validatorsStatuses[v.GetAddress()] = ValidatorAbsent
		}
		present = append(present, st == 0)
	}
	bc.calculatePowers(bc.stateDeliver.Validators.GetValidators())
	return keys, stakes, present
}
