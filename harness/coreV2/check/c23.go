package check

import (
	"math/big"

	"github.com/MinterTeam/minter-go-node/coreV2/types"
	"github.com/MinterTeam/minter-go-node/rlp"
)

func verifSecpN() *big.Int {
	n, _ := new(big.Int).SetString("115792089237316195423570985008687907852837564279074904382605163141518161494337", 10)
	return n
}

// C23 (checks): same gates in front of the issuer recovery of a check.
func VerifHarness_C23_CheckRecoverGates() {
	R, S, Vb := verifBigNN("R"), verifBigNN("S"), verifBigNN("Vb")
	verifAssume(Vb.Cmp(new(big.Int).Lsh(big.NewInt(1), 500)) < 0) // bound: V below 2^500 (larger: same BitLen rejection)
	var h types.Hash
	_, err := recoverPlain(h, R, S, Vb)
	if err == ErrInvalidSig {
		return
	}
	N := verifSecpN()
	half := new(big.Int).Rsh(N, 1)
	verifAssert("C23:check-recovery-id-is-27-or-28", Vb.Cmp(big.NewInt(27)) == 0 || Vb.Cmp(big.NewInt(28)) == 0)
	verifAssert("C23:check-r-in-curve-order-range", R.Sign() > 0 && R.Cmp(N) < 0)
	verifAssert("C23:check-s-in-lower-half", S.Sign() > 0 && S.Cmp(half) <= 0)
}

func verifCheckTemplate() *Check {
	return &Check{
		Nonce:    []byte{1},
		ChainID:  types.CurrentChainID,
		DueBlock: 100,
		Coin:     1,
		Value:    big.NewInt(5),
		GasCoin:  0,
	}
}

// C23/C21: the issuer's signature covers every field of the check and the lock;
// the lock covers every field.
func VerifHarness_C23_CheckHashCoversFields() {
	base := verifCheckTemplate()
	base.Lock = big.NewInt(9)
	k := verifChoice("field", 7)
	c := verifCheckTemplate()
	c.Lock = big.NewInt(9)
	d := verifU64Range("delta", 1, 200)
	switch k {
	case 0:
		c.Nonce = []byte{2}
	case 1:
		c.ChainID = types.ChainID(byte(c.ChainID) + 1)
	case 2:
		c.DueBlock += d
	case 3:
		c.Coin = types.CoinID(uint32(c.Coin) + uint32(d))
	case 4:
		c.Value = new(big.Int).Add(c.Value, new(big.Int).SetUint64(d))
	case 5:
		c.GasCoin = types.CoinID(uint32(c.GasCoin) + uint32(d))
	case 6:
		c.Lock = big.NewInt(10)
		verifAssert("C23:check-hash-covers-lock", c.Hash() != base.Hash())
		verifAssert("C23:lock-hash-ignores-lock", c.HashWithoutLock() == base.HashWithoutLock())
		return
	}
	verifAssert("C23:check-hash-covers-field", c.Hash() != base.Hash())
	verifAssert("C23:lock-hash-covers-field", c.HashWithoutLock() != base.HashWithoutLock())
}

// C23: a check followed by trailing bytes is not a valid check encoding.
func VerifHarness_C23_CheckTrailingBytesRejected() {
	c := verifCheckTemplate()
	c.Lock = big.NewInt(9)
	c.V, c.R, c.S = big.NewInt(27), big.NewInt(2), big.NewInt(1)
	raw, err := rlp.EncodeToBytes(c)
	if err != nil {
		panic(err)
	}
	_, err = DecodeFromBytes(raw)
	verifAssert("C23:check-canonical-encoding-accepted", err == nil)
	_, err = DecodeFromBytes(append(raw, 0x01))
	verifAssert("C23:check-with-trailing-bytes-rejected", err != nil)
}
