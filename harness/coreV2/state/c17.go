package state

import (
	"math/big"

	eventsdb "github.com/MinterTeam/minter-go-node/coreV2/events"
	"github.com/MinterTeam/minter-go-node/coreV2/types"
	db "github.com/tendermint/tm-db"
)

func verifKn(n int) types.Pubkey {
	var p types.Pubkey
	p[0], p[1], p[31] = byte(n>>8), byte(n), 0x77
	return p
}

func verifAn(n int) types.Address {
	var a types.Address
	a[0], a[1], a[19] = byte(n>>8), byte(n), 0x55
	return a
}

// C17 (ranking): N concrete candidates (config "n", 100 or 101) whose single
// base-coin stakes take a few distinct values, plus one candidate X with a
// symbolic stake; one low-ranked candidate is a current validator.  After the
// stake recalculation of a validator-set update: at most 100 candidates
// remain unless a validator had to be spared, the removed ones are exactly the
// lowest ranked (stake descending, id ascending) non-validators, their stakes
// are frozen for the unbond period with their full value, and the new
// validator set is the top online candidates with at least 1000 BIP.
func VerifHarness_C17_Ranking() {
	st, err := NewStateV3(0, db.NewMemDB(), &eventsdb.MockEvents{}, 1, 2, 0)
	if err != nil {
		panic(err)
	}
	n := verifConfig("n")
	const height = 120
	type cand struct {
		key   types.Pubkey
		owner types.Address
		stake *big.Int
		id    uint32
		val   bool
		on    bool
	}
	var cs []*cand
	for i := 1; i <= n; i++ {
		// stakes 3000, 4000, 5000 BIP in rotation; candidate 2 is small (500 BIP) and a validator
		s := verifE18(int64(3000 + 1000*(i%3)))
		c := &cand{key: verifKn(i), owner: verifAn(i), stake: s, on: i%5 != 0}
		if i == 2 {
			c.stake, c.val = verifE18(500), true
		}
		cs = append(cs, c)
	}
	x := &cand{key: verifKn(9999), owner: verifAn(9999), stake: verifBigPos("stakeX"), on: true}
	verifAssume(x.stake.Cmp(verifE18(100000)) <= 0)
	dust := verifConfig("dust") == 1
	dustOwner, dustValue := verifAn(7777), big.NewInt(1000000)
	if dust {
		// X also holds a stake in a custom coin whose value in base coin (bancor
		// formula, uninterpreted) may round down to zero; X's base stake and the
		// coin's reserve are small enough to keep X the lowest-ranked candidate
		verifAssume(x.stake.Cmp(verifE18(100)) <= 0)
		owner := verifAn(1)
		st.Coins.Create(1, types.StrToCoinSymbol("DUST"), "dust", verifE18(10000000), 50, verifE18(100), verifE18(100000000), &owner)
		st.App.SetCoinsCount(1)
	}
	cs = append(cs, x)
	for _, c := range cs {
		st.Candidates.Create(c.owner, c.owner, c.owner, c.key, 10, 1, 0)
		if c.on {
			st.Candidates.SetOnline(c.key)
		}
		st.Candidates.Delegate(c.owner, c.key, 0, c.stake, c.stake)
		c.id = st.Candidates.ID(c.key)
	}
	if dust {
		st.Candidates.Delegate(dustOwner, x.key, 1, dustValue, big.NewInt(0))
	}
	// candidate 2 is in the current validator set
	for _, c := range cs {
		if c.val {
			st.Validators.Create(c.key, c.stake)
		}
	}
	st.Candidates.RecalculateStakesV2(height)

	// ---- expected ranking: stake descending, id ascending
	rank := make([]*cand, len(cs))
	copy(rank, cs)
	for i := range rank {
		for j := i + 1; j < len(rank); j++ {
			c := rank[j].stake.Cmp(rank[i].stake)
			if c > 0 || (c == 0 && rank[j].id < rank[i].id) {
				rank[i], rank[j] = rank[j], rank[i]
			}
		}
	}
	left := 0
	for k, c := range rank {
		exists := st.Candidates.Exists(c.key)
		if exists {
			left++
		}
		if k < 100 {
			verifAssert("C17:top-100-kept", exists)
		} else {
			verifAssert("C17:beyond-100-removed-unless-validator", exists == c.val)
			if !exists {
				ff := st.FrozenFunds.GetFrozenFunds(height + types.GetUnbondPeriod())
				found := false
				if ff != nil {
					for _, it := range ff.List {
						if it.Address == c.owner && it.Coin == 0 && it.Value.Cmp(c.stake) == 0 {
							found = true
						}
					}
				}
				verifAssert("C17:removed-candidate-stake-unbonded-in-full", found)
				if dust && c == x {
					foundDust := false
					if ff != nil {
						for _, it := range ff.List {
							if it.Address == dustOwner && it.Coin == 1 && it.Value.Cmp(dustValue) == 0 {
								foundDust = true
							}
						}
					}
					verifAssert("C17:removed-candidate-custom-coin-stake-unbonded-in-full", foundDust)
				}
			}
		}
	}
	verifAssert("C17:at-most-100-candidates-plus-spared-validators", left <= 101)
	// ---- new validator set: top online candidates with >= 1000 BIP
	vals := st.Candidates.GetNewCandidates(4)
	verifAssert("C17:validator-count", len(vals) <= 4)
	chosen := map[types.Pubkey]bool{}
	var lowest *big.Int
	for k, v := range vals {
		chosen[v.PubKey] = true
		tot := st.Candidates.GetTotalStake(v.PubKey)
		verifAssert("C17:validator-online-with-minimum-stake", v.Status == 2 && tot.Cmp(verifE18(1000)) >= 0)
		if k > 0 {
			verifAssert("C17:validators-in-stake-order", tot.Cmp(lowest) <= 0)
		}
		lowest = tot
	}
	for _, c := range cs {
		if !st.Candidates.Exists(c.key) || chosen[c.key] || !c.on {
			continue
		}
		tot := st.Candidates.GetTotalStake(c.key)
		if tot.Cmp(verifE18(1000)) < 0 {
			continue
		}
		verifAssert("C17:no-eligible-candidate-outranks-a-validator", len(vals) == 4 && tot.Cmp(lowest) <= 0)
	}
}

// C17 (delegation slots): a candidate whose 1000 delegation slots are full
// (concrete stakes, the smallest one unique) receives one more delegation of
// symbolic value.  The newcomer replaces the smallest stake only if it is not
// smaller; whichever loses goes to the waitlist with its full value; the
// candidate's total is the sum of the 1000 stakes kept.
func VerifHarness_C17_FullSlots() {
	st, err := NewStateV3(0, db.NewMemDB(), &eventsdb.MockEvents{}, 1, 2, 0)
	if err != nil {
		panic(err)
	}
	P := verifK(1)
	owner := verifA(1)
	st.Candidates.Create(owner, owner, owner, P, 10, 1, 0)
	st.Candidates.SetOnline(P)
	const smallestAt = 637
	var stakes []types.Stake
	sum := big.NewInt(0)
	for i := 0; i < 1000; i++ {
		v := verifE18(int64(2000 + i%7))
		if i == smallestAt {
			v = verifE18(1500)
		}
		sum.Add(sum, v)
		stakes = append(stakes, types.Stake{Owner: verifAn(i + 1), Coin: 0, Value: v.String(), BipValue: v.String()})
	}
	st.Candidates.SetStakes(P, stakes, nil)
	newcomer := verifAn(5000)
	v := verifBigPos("newStake")
	verifAssume(v.Cmp(verifE18(100000)) <= 0)
	st.Candidates.Delegate(newcomer, P, 0, v, v)
	st.Candidates.RecalculateStakesV2(120)

	small := verifE18(1500)
	loser := verifAn(smallestAt + 1)
	inNew := st.Candidates.GetStakeValueOfAddress(P, newcomer, 0)
	inOld := st.Candidates.GetStakeValueOfAddress(P, loser, 0)
	wlNew := st.Waitlist.Get(newcomer, P, 0)
	wlOld := st.Waitlist.Get(loser, P, 0)
	if v.Cmp(small) >= 0 {
		verifAssert("C17:not-smaller-newcomer-takes-the-smallest-slot", inNew != nil && inNew.Cmp(v) == 0 && (inOld == nil || inOld.Sign() == 0))
		verifAssert("C17:kicked-stake-goes-to-waitlist-in-full", wlOld != nil && wlOld.Value.Cmp(small) == 0 && wlNew == nil)
		want := new(big.Int).Add(new(big.Int).Sub(sum, small), v)
		verifAssert("C17:total-stake-is-the-sum-of-kept-stakes", st.Candidates.GetTotalStake(P).Cmp(want) == 0)
	} else {
		verifAssert("C17:smaller-newcomer-does-not-displace", inOld != nil && inOld.Cmp(small) == 0 && (inNew == nil || inNew.Sign() == 0))
		verifAssert("C17:rejected-newcomer-goes-to-waitlist-in-full", wlNew != nil && wlNew.Value.Cmp(v) == 0 && wlOld == nil)
		verifAssert("C17:total-stake-is-the-sum-of-kept-stakes", st.Candidates.GetTotalStake(P).Cmp(sum) == 0)
	}
}

// C18 (absence window): validator P's 24-block attendance window holds a
// concrete pattern of 10 missed blocks plus 4 positions whose bits are
// arbitrary (so the count before the step ranges over 10..14, the slot of the
// current height included or not).  P misses block H.  More than 12 misses in
// the window: P is switched off, marked to be dropped, its window is reset and
// its candidate is jailed until exactly H + jail period; otherwise nothing but
// the window bit changes.
func VerifHarness_C18_AbsenceWindow() {
	st, err := NewStateV3(0, db.NewMemDB(), &eventsdb.MockEvents{}, 1, 2, 0)
	if err != nil {
		panic(err)
	}
	P := verifK(1)
	owner := verifA(1)
	st.Candidates.Create(owner, owner, owner, P, 10, 1, 0)
	st.Candidates.SetOnline(P)
	v := verifE18(5000)
	st.Candidates.Delegate(owner, P, 0, v, v)
	st.Candidates.RecalculateStakesV2(1)
	st.Validators.SetNewValidators(st.Candidates.GetNewCandidates(4))
	val := st.Validators.GetValidators()[0]
	const H = 1000 // slot 1000 % 24 = 16
	// concrete misses at slots 0..9; arbitrary bits at slots 12, 16 (the current one), 20, 23
	free := []int{12, 16, 20, 23}
	before := 10
	var bits [4]bool
	for k, slot := range free {
		bits[k] = verifBool("missed." + string(rune('a'+k)))
		if bits[k] {
			before++
		}
		_ = slot
	}
	for i := 0; i < 10; i++ {
		val.AbsentTimes.SetIndex(i, true)
	}
	for k, slot := range free {
		val.AbsentTimes.SetIndex(slot, bits[k])
	}
	after := before
	if !bits[1] {
		after++
	}
	st.Validators.SetValidatorAbsent(H, val.GetAddress(), nil)
	cand := st.Candidates.GetCandidate(P)
	if after > 12 {
		verifAssert("C18:more-than-12-of-24-missed-switches-off", cand.Status == 1 && val.IsToDrop())
		verifAssert("C18:jailed-for-exactly-the-jail-period", cand.JailedUntil == H+types.GetJailPeriod())
		verifAssert("C18:window-reset-after-punishment", val.CountAbsentTimes() == 0)
	} else {
		verifAssert("C18:up-to-12-misses-tolerated", cand.Status == 2 && !val.IsToDrop() && cand.JailedUntil == 0)
		verifAssert("C18:window-records-the-miss", val.CountAbsentTimes() == after)
	}
}
