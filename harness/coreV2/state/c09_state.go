package state

import (
	"math/big"

	eventsdb "github.com/MinterTeam/minter-go-node/coreV2/events"
	"github.com/MinterTeam/minter-go-node/coreV2/types"
	db "github.com/tendermint/tm-db"
)

func verifA(b byte) types.Address {
	var a types.Address
	a[0], a[19] = b, b
	return a
}

func verifK(b byte) types.Pubkey {
	var p types.Pubkey
	p[0], p[31] = b, b
	return p
}

func verifE18(n int64) *big.Int {
	return new(big.Int).Mul(big.NewInt(n), new(big.Int).Exp(big.NewInt(10), big.NewInt(18), nil))
}

// verifAmount: symbolic positive amounts, or distinct concrete ones when the
// harness runs in map-order mode (config "concrete" = 1), where the database
// write traces of different iteration orders are compared textually.
func verifAmount(name string, concrete int64) *big.Int {
	if verifConfig("concrete") == 1 {
		return verifE18(concrete)
	}
	return verifBigPos(name)
}

// verifPopulate fills every state module through its own mutators.
func verifPopulate(st *State) {
	A, B, C := verifA(1), verifA(2), verifA(3)
	P, Q := verifK(1), verifK(2)
	st.App.SetCoinsCount(2)
	st.App.SetTotalSlashed(verifAmount("slashed", 3))
	st.App.SetMaxGas(7000)
	if verifConfig("step") == 8 {
		// only for the reward step: the state-level export of C11 does not carry
		// the reward (the export command fills PrevReward from the app DB)
		st.App.SetReward(verifAmount("reward0", 100), verifAmount("rewardsafe0", 333))
	}
	owner := A
	st.Coins.Create(1, types.StrToCoinSymbol("AAA"), "coin a", verifAmount("vol1", 5000), 50, verifAmount("res1", 20000), verifE18(1000000), &owner)
	st.Coins.CreateToken(2, types.StrToCoinSymbol("TOK"), "token", true, true, verifAmount("vol2", 700), verifE18(1000000), &owner)
	for i, a := range []types.Address{A, B, C} {
		st.Accounts.SetBalance(a, 0, verifAmount("bal0."+string(rune('A'+i)), int64(100+i)))
		st.Accounts.SetBalance(a, 1, verifAmount("bal1."+string(rune('A'+i)), int64(200+i)))
		st.Accounts.SetNonce(a, uint64(5+i))
	}
	st.Accounts.SetBalance(A, 2, verifAmount("bal2.A", 300))
	if verifConfig("concrete") == 1 {
		// map-order mode (C08): one account with many balance records, so that an
		// order-dependent sequence of tree writes also shows up natively as a
		// different IAVL shape (root hash) within a few runs
		for c := 10; c < 26; c++ {
			st.Accounts.SetBalance(A, types.CoinID(c), verifE18(int64(1000+c)))
		}
	}
	st.Accounts.CreateMultisig([]uint32{1, 2}, []types.Address{A, B}, 2, verifA(9))
	st.Candidates.Create(A, A, A, P, 10, 1, 0)
	st.Candidates.Create(B, B, B, Q, 20, 1, 0)
	st.Candidates.SetOnline(P)
	st.Candidates.SetOnline(Q)
	if verifConfig("step") == 7 {
		// three more candidates whose public keys are replaced in block 2 (the
		// old keys enter the block list, a map that Commit must write in a
		// canonical order)
		for k := byte(3); k <= 5; k++ {
			st.Candidates.Create(C, C, C, verifK(k), 10, 1, 0)
		}
	}
	for i, d := range []types.Address{A, B, C} {
		v := verifE18(int64(1500 + i))
		st.Candidates.Delegate(d, P, 0, v, v)
		w := verifE18(int64(2500 + i))
		st.Candidates.Delegate(d, Q, 0, w, w)
	}
	st.Candidates.RecalculateStakesV2(1)
	st.Validators.SetNewValidators(st.Candidates.GetNewCandidates(4))
	pP, pQ := P, Q
	st.FrozenFunds.AddFund(50, A, &pP, st.Candidates.ID(P), 0, verifAmount("ff1", 11), 0)
	st.FrozenFunds.AddFund(50, B, &pQ, st.Candidates.ID(Q), 0, verifAmount("ff2", 12), st.Candidates.ID(P))
	st.FrozenFunds.AddFund(60, C, nil, 0, 1, verifAmount("ff3", 13), 0)
	st.Waitlist.AddWaitList(A, P, 0, verifAmount("wl1", 21))
	st.Waitlist.AddWaitList(B, Q, 1, verifAmount("wl2", 22))
	st.Halts.AddHaltBlock(900, P)
	st.Halts.AddHaltBlock(900, Q)
	st.Halts.AddHaltBlock(901, Q)
	st.Updates.AddVote(800, P, "v9")
	st.Updates.AddVote(800, Q, "v9")
	st.Checks.UseCheckHash(types.Hash{1})
	st.Checks.UseCheckHash(types.Hash{2})
	st.SwapV2.PairCreate(1, 0, verifE18(4000), verifE18(6000))
	st.SwapV2.PairCreate(2, 0, verifE18(400), verifE18(600))
	st.SwapV2.PairAddOrder(0, 1, verifE18(10), verifE18(20), A, 1)
	st.SwapV2.PairAddOrder(0, 1, verifE18(10), verifE18(30), B, 1)
}

type verifView struct {
	names []string
	vals  []*big.Int
}

func (v *verifView) add(n string, x *big.Int) {
	v.names = append(v.names, n)
	if x == nil {
		x = big.NewInt(-1)
	}
	v.vals = append(v.vals, new(big.Int).Set(x))
}

// verifObserve reads the state through its getters.
func verifObserve(st *State) *verifView {
	v := &verifView{}
	A, B, C := verifA(1), verifA(2), verifA(3)
	P, Q := verifK(1), verifK(2)
	u := func(x uint64) *big.Int { return new(big.Int).SetUint64(x) }
	v.add("app.slashed", st.App.GetTotalSlashed())
	v.add("app.coins", u(uint64(st.App.GetCoinsCount())))
	v.add("app.maxgas", u(st.App.GetMaxGas()))
	if verifConfig("step") == 8 {
		rew, safe := st.App.Reward()
		v.add("app.reward", rew)
		v.add("app.rewardsafe", safe)
	}
	for _, c := range []types.CoinID{1, 2} {
		m := st.Coins.GetCoin(c)
		v.add("coin.vol."+c.String(), m.Volume())
		v.add("coin.res."+c.String(), m.Reserve())
		v.add("coin.max."+c.String(), m.MaxSupply())
		v.add("coin.crr."+c.String(), u(uint64(m.Crr())))
	}
	for i, a := range []types.Address{A, B, C, verifA(9)} {
		n := string(rune('A' + i))
		for _, c := range []types.CoinID{0, 1, 2} {
			v.add("bal."+n+"."+c.String(), st.Accounts.GetBalance(a, c))
		}
		v.add("nonce."+n, u(st.Accounts.GetNonce(a)))
		v.add("msig."+n, u(uint64(st.Accounts.GetAccount(a).Multisig().Threshold)))
	}
	for i, pk := range []types.Pubkey{P, Q} {
		n := string(rune('P' + i))
		c := st.Candidates.GetCandidate(pk)
		v.add("cand.status."+n, u(uint64(c.Status)))
		v.add("cand.commission."+n, u(uint64(c.Commission)))
		v.add("cand.lastedit."+n, u(c.LastEditCommissionHeight))
		v.add("cand.jailed."+n, u(c.JailedUntil))
		v.add("cand.owner."+n, new(big.Int).SetBytes(c.OwnerAddress[:]))
		v.add("cand.total."+n, st.Candidates.GetTotalStake(pk))
		for j, d := range []types.Address{A, B, C} {
			v.add("stake."+n+"."+string(rune('A'+j)), st.Candidates.GetStakeValueOfAddress(pk, d, 0))
		}
	}
	for k := byte(3); k <= 5; k++ {
		blocked := uint64(0)
		if st.Candidates.IsBlockedPubKey(verifK(k)) {
			blocked = 1
		}
		v.add("cand.blocked."+string(rune('0'+k)), u(blocked))
		v.add("cand.replaced."+string(rune('0'+k)), u(uint64(st.Candidates.ID(verifK(k+10)))))
	}
	for i, val := range st.Validators.GetValidators() {
		n := string(rune('0' + i))
		v.add("val.stake."+n, val.GetTotalBipStake())
		v.add("val.accum."+n, val.GetAccumReward())
		v.add("val.absent."+n, u(uint64(val.CountAbsentTimes())))
	}
	for _, h := range []uint64{50, 60} {
		ff := st.FrozenFunds.GetFrozenFunds(h)
		if ff == nil {
			v.add("ff.len."+u(h).String(), big.NewInt(0))
			continue
		}
		v.add("ff.len."+u(h).String(), u(uint64(len(ff.List))))
		for j, it := range ff.List {
			v.add("ff."+u(h).String()+"."+string(rune('0'+j)), it.Value)
			v.add("ff.move."+u(h).String()+"."+string(rune('0'+j)), u(uint64(it.GetMoveToCandidateID())))
		}
	}
	if w := st.Waitlist.Get(A, P, 0); w != nil {
		v.add("wl.A", w.Value)
	} else {
		v.add("wl.A", nil)
	}
	if w := st.Waitlist.Get(B, Q, 1); w != nil {
		v.add("wl.B", w.Value)
	} else {
		v.add("wl.B", nil)
	}
	b2i := func(b bool) *big.Int {
		if b {
			return big.NewInt(1)
		}
		return big.NewInt(0)
	}
	v.add("halt.900.P", b2i(st.Halts.IsHaltExists(900, P)))
	v.add("halt.901.Q", b2i(st.Halts.IsHaltExists(901, Q)))
	v.add("halt.901.P", b2i(st.Halts.IsHaltExists(901, P)))
	v.add("upd.800.P", b2i(st.Updates.IsVoteExists(800, P)))
	v.add("check.1", b2i(st.Checks.VerifIsUsedHash(types.Hash{1})))
	v.add("check.3", b2i(st.Checks.VerifIsUsedHash(types.Hash{3})))
	r1, r0, id := st.SwapV2.SwapPool(1, 0)
	v.add("pool.r1", r1)
	v.add("pool.r0", r0)
	v.add("pool.id", u(uint64(id)))
	r2, r20, id2 := st.SwapV2.SwapPool(2, 0)
	v.add("pool2.r2", r2)
	v.add("pool2.r0", r20)
	v.add("pool2.id", u(uint64(id2)))
	for _, oid := range []uint32{1, 2} {
		o := st.SwapV2.GetOrder(oid)
		if o == nil {
			v.add("order."+u(uint64(oid)).String(), nil)
			continue
		}
		v.add("order.buy."+u(uint64(oid)).String(), o.WantBuy)
		v.add("order.sell."+u(uint64(oid)).String(), o.WantSell)
	}
	return v
}

func verifCompare(tag string, a, b *verifView) {
	verifAssert("C09:"+tag+":same-shape", len(a.vals) == len(b.vals))
	if len(a.vals) != len(b.vals) {
		return
	}
	for i := range a.vals {
		verifAssert("C09:"+tag+":"+a.names[i], a.names[i] == b.names[i] && a.vals[i].Cmp(b.vals[i]) == 0)
	}
}

// verifBlock2 is the second block's activity (config "step" selects it).
func verifBlock2(st *State) {
	A, B := verifA(1), verifA(2)
	P, Q := verifK(1), verifK(2)
	switch verifConfig("step") {
	case 0: // balances and nonces
		st.Accounts.SubBalance(A, 0, big.NewInt(1))
		st.Accounts.AddBalance(B, 1, verifAmount("step.add", 9))
		st.Accounts.SetNonce(A, 77)
	case 1: // validator attendance: absent at one height, present again one window later
		for _, val := range st.Validators.GetValidators() {
			st.Validators.SetValidatorAbsent(103, val.GetAddress(), nil)
		}
	case 2: // a returning validator clears its missed-block bit
		for _, val := range st.Validators.GetValidators() {
			st.Validators.SetValidatorPresent(103+24, val.GetAddress())
		}
	case 3: // stakes, frozen funds, waitlist
		st.Candidates.SubStake(A, P, 0, big.NewInt(5))
		st.FrozenFunds.AddFund(60, A, &P, st.Candidates.ID(P), 0, verifAmount("step.ff", 14), 0)
		st.Waitlist.Delete(B, Q, 1)
		st.Candidates.SetOffline(Q)
	case 5: // a commission "edit" to the value the candidate already has (only the edit height changes)
		st.Candidates.EditCommission(P, 10, 150)
	case 6: // candidate addresses
		st.Candidates.Edit(Q, A, A, A)
	case 8: // a reward update that leaves the price-derived (safe) level as it was
		_, safe := st.App.Reward()
		st.App.SetReward(verifAmount("reward1", 110), safe)
	case 7: // replaced public keys: three entries in the block list
		for k := byte(3); k <= 5; k++ {
			st.Candidates.ChangePubKey(verifK(k), verifK(k+10))
		}
	case 4: // pools, coins, app
		st.SwapV2.PairSellWithOrders(1, 0, verifE18(1), big.NewInt(0))
		st.Coins.SubVolume(1, big.NewInt(1))
		st.Coins.AddReserve(1, big.NewInt(2))
		st.App.AddTotalSlashed(big.NewInt(4))
		st.Checks.UseCheckHash(types.Hash{3})
	}
}

// C09 (state modules): block 1 populates every module, block 2 (optionally in
// a restarted process, config "restart") changes some of them; after each
// commit a fresh State opened over the same database must answer every getter
// like the continuing one.  In map-order mode (C08) the same run is explored
// under every iteration order of the maps met on the way and the ordered
// database writes must not depend on it.
func VerifHarness_C09_StateRestart() {
	disk := db.NewMemDB()
	st, err := NewStateV3(0, disk, &eventsdb.MockEvents{}, 1, 2, 0)
	if err != nil {
		panic(err)
	}
	verifPopulate(st)
	h1, err := st.Commit()
	if err != nil {
		panic(err)
	}
	fresh, err := NewStateV3(1, disk, &eventsdb.MockEvents{}, 1, 2, 0)
	if err != nil {
		panic(err)
	}
	verifCompare("after-block-1", verifObserve(st), verifObserve(fresh))
	cur := st
	if verifConfig("restart") == 1 {
		cur = fresh
		if verifConfig("step") == 2 { // the miss must be on record before the restart... it is not: replay it
			for _, val := range cur.Validators.GetValidators() {
				cur.Validators.SetValidatorAbsent(103, val.GetAddress(), nil)
			}
		}
	} else if verifConfig("step") == 2 {
		for _, val := range cur.Validators.GetValidators() {
			cur.Validators.SetValidatorAbsent(103, val.GetAddress(), nil)
		}
	}
	if verifConfig("step") == 2 {
		// the miss is committed in its own block
		if _, err := cur.Commit(); err != nil {
			panic(err)
		}
	}
	verifBlock2(cur)
	h2, err := cur.Commit()
	if err != nil {
		panic(err)
	}
	ver := uint64(2)
	if verifConfig("step") == 2 {
		ver = 3
	}
	fresh2, err := NewStateV3(ver, disk, &eventsdb.MockEvents{}, 1, 2, 0)
	if err != nil {
		panic(err)
	}
	verifCompare("after-block-2", verifObserve(cur), verifObserve(fresh2))
	verifNote("native:apphash", new(big.Int).SetBytes(append(append([]byte{}, h1...), h2...)))
}
