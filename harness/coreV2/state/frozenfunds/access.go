package frozenfunds

// VerifLive returns the frozen items at height that are still held (a batch
// flagged deleted is removed from the tree at the next commit and no longer
// holds value).  Read-only accessor injected by overlay.
func (f *FrozenFunds) VerifLive(height uint64) []Item {
	m := f.get(height)
	if m == nil || m.deleted {
		return nil
	}
	out := make([]Item, len(m.List))
	copy(out, m.List)
	return out
}
