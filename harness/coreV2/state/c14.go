package state

import (
	"math/big"

	eventsdb "github.com/MinterTeam/minter-go-node/coreV2/events"
	"github.com/MinterTeam/minter-go-node/coreV2/types"
	db "github.com/tendermint/tm-db"
)

type verifOrd struct {
	id         uint32
	owner      types.Address
	B, S       *big.Int // wants to buy B of coin 0 for S of coin 1 (escrow)
	b, s       *big.Int // after the taker's trade (0,0 when closed)
	got        *big.Int // coin 0 paid to the owner by the trade
	refund     *big.Int // coin 1 returned to the owner by the trade (order closed as too small)
	sold       *big.Int // coin 1 delivered out of the escrow
}

func verifOrderNow(st *State, id uint32) (*big.Int, *big.Int) {
	return st.SwapV2.VerifOrder(0, 1, id)
}

// C14: a pool (coin 0, coin 1) with a concrete book of resting orders selling
// coin 1 (config "orders" = 1..3; two price levels, two orders at the same
// price with different ids), optionally committed first (config "commit").  A
// taker sells an arbitrary amount of coin 0.  Then, in the same block, the
// first order is cancelled (config "close" = 0) or every order expires (1),
// twice.
func VerifHarness_C14_FillThenClose() {
	st, err := NewStateV3(0, db.NewMemDB(), &eventsdb.MockEvents{}, 1, 2, 0)
	if err != nil {
		panic(err)
	}
	owners := []types.Address{verifA(1), verifA(2), verifA(3)}
	burn := types.HexToAddress("Mx00cedde786b34d733d1dc96559253081572df2c6")
	st.App.SetCoinsCount(1)
	own := owners[0]
	st.Coins.CreateToken(1, types.StrToCoinSymbol("TOK"), "token", true, true, verifE18(1000000), verifE18(100000000), &own)
	st.SwapV2.PairCreate(0, 1, verifE18(10000), verifE18(10000))
	n := verifConfig("orders")
	book := []*verifOrd{
		{owner: owners[0], B: verifE18(1000), S: verifE18(900)},
		{owner: owners[1], B: verifE18(2000), S: verifE18(1800)}, // same price, later id
		{owner: owners[2], B: verifE18(1000), S: verifE18(700)},  // worse for the taker
	}
	if n == 2 {
		book = []*verifOrd{book[0], book[2]}
	} else {
		book = book[:n]
	}
	if verifConfig("reverseInsert") == 1 && len(book) >= 2 {
		// insertion order differs from priority order
		book[0], book[len(book)-1] = book[len(book)-1], book[0]
	}
	for _, o := range book {
		o.id, _ = st.SwapV2.PairAddOrder(0, 1, new(big.Int).Set(o.B), new(big.Int).Set(o.S), o.owner, 1)
	}
	if verifConfig("commit") == 1 {
		if _, err := st.Commit(); err != nil {
			panic(err)
		}
	}
	if verifConfig("cancelSecond") == 1 && len(book) >= 3 && verifConfig("commit") == 1 {
		// an order that is not the best one is cancelled in a block of its own
		// (nothing else touches the book before the commit); the orders behind it
		// must stay visible to later trades
		second := book[0]
		{
			// priority: B/S ascending, then id
			pr := make([]*verifOrd, len(book))
			copy(pr, book)
			for i := range pr {
				for j := i + 1; j < len(pr); j++ {
					ci := new(big.Int).Mul(pr[i].B, pr[j].S)
					cj := new(big.Int).Mul(pr[j].B, pr[i].S)
					if ci.Cmp(cj) > 0 || (ci.Cmp(cj) == 0 && pr[i].id > pr[j].id) {
						pr[i], pr[j] = pr[j], pr[i]
					}
				}
			}
			second = pr[1]
		}
		_, vol := st.SwapV2.PairRemoveLimitOrder(second.id)
		verifAssert("C14:cancel-returns-exactly-the-unfilled-amount", vol.Cmp(second.S) == 0)
		var rest []*verifOrd
		for _, o := range book {
			if o != second {
				rest = append(rest, o)
			}
		}
		book = rest
		if _, err := st.Commit(); err != nil {
			panic(err)
		}
	}
	a := verifBigPos("a")
	verifAssume(a.Cmp(verifE18(100000)) <= 0)
	if lo := verifConfig("minAmount"); lo > 0 {
		verifAssume(a.Cmp(verifE18(int64(lo))) >= 0)
	}
	quote, _ := st.SwapV2.GetSwapper(0, 1).CalculateBuyForSellWithOrders(a)
	if quote == nil || quote.Sign() != 1 {
		return
	}
	bal1 := map[types.Address]*big.Int{}
	for _, o := range book {
		bal1[o.owner] = st.Accounts.GetBalance(o.owner, 1)
	}
	_, out, _, _, paid := st.SwapV2.PairSellWithOrders(0, 1, a, big.NewInt(0))
	verifAssert("C06:executed=quoted", out.Cmp(quote) == 0)
	for _, p := range paid {
		st.Accounts.AddBalance(p.Owner, 0, p.ValueBigInt) // as the transaction does
	}
	_ = burn
	// ---- per order: price, remainder, refund
	for _, o := range book {
		o.b, o.s = verifOrderNow(st, o.id)
		o.got = st.Accounts.GetBalance(o.owner, 0)
		o.refund = new(big.Int).Sub(st.Accounts.GetBalance(o.owner, 1), bal1[o.owner])
		o.sold = new(big.Int).Sub(new(big.Int).Sub(o.S, o.s), o.refund)
		verifAssert("C14:escrow-accounted", o.sold.Sign() >= 0 && o.refund.Sign() >= 0 && o.s.Sign() >= 0)
		// own price or better for the owner, up to one unit of rounding: (sold-1)*B <= got*S
		lhs := new(big.Int).Mul(new(big.Int).Sub(o.sold, big.NewInt(1)), o.B)
		verifAssert("C14:filled-at-own-price-or-better", lhs.Cmp(new(big.Int).Mul(o.got, o.S)) <= 0)
		verifAssert("C14:owner-never-overpaid-by-more-than-asked", o.got.Cmp(o.B) <= 0)
		// a partially filled order keeps its price: 0 <= s*B - b*S < B
		if o.s.Sign() > 0 {
			d := new(big.Int).Sub(new(big.Int).Mul(o.s, o.B), new(big.Int).Mul(o.b, o.S))
			verifAssert("C14:partial-fill-keeps-price", d.Sign() >= 0 && d.Cmp(o.B) < 0)
			min := big.NewInt(10000000000)
			verifAssert("C14:open-order-not-below-minimum-volume", o.b.Cmp(min) >= 0 && o.s.Cmp(min) >= 0)
			verifAssert("C14:no-refund-while-open", o.refund.Sign() == 0)
		} else {
			verifAssert("C14:closed-order-is-empty", o.b.Sign() == 0)
			verifAssert("C14:closing-refund-below-minimum-or-dust", o.refund.Cmp(big.NewInt(10000000000)) < 0 || new(big.Int).Sub(o.B, o.got).Cmp(big.NewInt(10000000000)) < 0)
		}
	}
	// ---- best price first, seen from the pool: the pool is never pushed past
	// the price of an order that is still open (the taker would have been served
	// at a worse price than a resting order offers); 0.3% tolerance for the
	// pool fee and rounding
	{
		p0, p1, _ := st.SwapV2.SwapPool(0, 1)
		for _, o := range book {
			if o.s.Sign() > 0 {
				lhs := new(big.Int).Mul(new(big.Int).Mul(p0, o.s), big.NewInt(1000))
				rhs := new(big.Int).Mul(new(big.Int).Mul(o.b, p1), big.NewInt(1003))
				verifAssert("C14:pool-not-pushed-past-an-open-order", lhs.Cmp(rhs) <= 0)
			}
		}
	}
	// ---- priority: best price first, lower id first at equal price
	prio := make([]*verifOrd, len(book))
	copy(prio, book)
	for i := range prio {
		for j := i + 1; j < len(prio); j++ {
			// price for the taker: B/S ascending; tie: lower id
			ci := new(big.Int).Mul(prio[i].B, prio[j].S)
			cj := new(big.Int).Mul(prio[j].B, prio[i].S)
			if ci.Cmp(cj) > 0 || (ci.Cmp(cj) == 0 && prio[i].id > prio[j].id) {
				prio[i], prio[j] = prio[j], prio[i]
			}
		}
	}
	for k := 1; k < len(prio); k++ {
		touched := prio[k].sold.Sign() > 0 || prio[k].got.Sign() > 0
		verifAssert("C14:later-order-touched-only-after-earlier-consumed", !touched || prio[k-1].s.Sign() == 0)
	}
	// ---- close in the same block (cancelling and expiry work on committed orders)
	if verifConfig("commit") != 1 {
		verifNote("out", out)
		return
	}
	first := prio[0]
	switch verifConfig("close") {
	case 0:
		want := new(big.Int).Set(first.s)
		coin, vol := st.SwapV2.PairRemoveLimitOrder(first.id)
		verifAssert("C14:cancel-returns-exactly-the-unfilled-amount", vol.Cmp(want) == 0)
		// the same fact as a ledger statement: what leaves the order escrow on
		// cancellation is what was still in it (more would be coins from nothing)
		verifAssert("C01:cancel-refund-equals-remaining-escrow", vol.Cmp(want) == 0)
		verifAssert("C14:cancel-returns-the-escrow-coin", vol.Sign() == 0 || coin == 1)
		_, vol2 := st.SwapV2.PairRemoveLimitOrder(first.id)
		verifAssert("C14:cancel-only-once", vol2.Sign() == 0)
		b, s := verifOrderNow(st, first.id)
		verifAssert("C14:cancelled-order-is-gone", b.Sign() == 0 && s.Sign() == 0)
	case 1:
		before := map[types.Address]*big.Int{}
		for _, o := range book {
			before[o.owner] = st.Accounts.GetBalance(o.owner, 1)
		}
		st.SwapV2.ExpireOrders(5)
		for _, o := range book {
			got := new(big.Int).Sub(st.Accounts.GetBalance(o.owner, 1), before[o.owner])
			verifAssert("C14:expiry-returns-exactly-the-unfilled-amount", got.Cmp(o.s) == 0)
			before[o.owner] = st.Accounts.GetBalance(o.owner, 1)
		}
		st.SwapV2.ExpireOrders(5)
		for _, o := range book {
			verifAssert("C14:expiry-only-once", st.Accounts.GetBalance(o.owner, 1).Cmp(before[o.owner]) == 0)
		}
	}
	verifNote("out", out)
}
