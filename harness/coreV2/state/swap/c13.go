package swap

import (
	"math/big"

	eventsdb "github.com/MinterTeam/minter-go-node/coreV2/events"
	"github.com/MinterTeam/minter-go-node/coreV2/state/bus"
	"github.com/MinterTeam/minter-go-node/coreV2/state/checker"
	"github.com/MinterTeam/minter-go-node/coreV2/types"
	"github.com/MinterTeam/minter-go-node/tree"
	db "github.com/tendermint/tm-db"
)

// verifNewSwapV2 builds a real SwapV2 over an empty tree.
func verifNewSwapV2() *SwapV2 {
	mt, err := tree.NewMutableTree(0, db.NewMemDB(), 1024, 0)
	if err != nil {
		panic(err)
	}
	b := bus.NewBus()
	checker.NewChecker(b)
	b.SetEvents(&eventsdb.MockEvents{})
	return NewV2(b, mt.GetLastImmutable())
}

// verifSeedPool makes (c0,c1) a live pool with the given reserves through the
// module's own constructor and reserve update.
func verifSeedPool(s *SwapV2, c0, c1 types.CoinID, r0, r1 *big.Int) *PairV2 {
	p := s.ReturnPair(c0, c1)
	*p.ID = s.incID()
	p.update(r0, r1)
	return s.Pair(c0, c1)
}

func verifPositive(x *big.Int) { verifAssume(x.Sign() > 0) }

// C13: selling into a pool never lowers r0*r1 and pays out less than the pool holds.
func VerifHarness_C13_SellKeepsK() {
	s := verifNewSwapV2()
	r0, r1 := verifBig("r0"), verifBig("r1")
	verifPositive(r0)
	verifPositive(r1)
	var p *PairV2
	if verifConfig("reversed") == 1 {
		p = verifSeedPool(s, 2, 1, r0, r1)
	} else {
		p = verifSeedPool(s, 1, 2, r0, r1)
	}
	a := verifBig("a")
	verifPositive(a)
	out := p.CalculateBuyForSell(a)
	if out == nil {
		return
	}
	verifAssert("payout<reserve", out.Cmp(r1) < 0)
	verifAssert("payout>0", out.Sign() > 0)
	k0 := new(big.Int).Mul(r0, r1)
	err := p.checkSwap(a, big.NewInt(0), big.NewInt(0), out)
	verifAssert("check-accepts-quote", err == nil)
	p.Swap(a, big.NewInt(0), big.NewInt(0), out) // a panic here is a violation (guard/worker mismatch)
	n0, n1 := p.Reserves()
	verifAssert("k-nondecreasing", new(big.Int).Mul(n0, n1).Cmp(k0) >= 0)
	verifAssert("reserve0=r0+a", n0.Cmp(new(big.Int).Add(r0, a)) == 0)
	verifAssert("reserve1=r1-out", n1.Cmp(new(big.Int).Sub(r1, out)) == 0)
	verifAssert("reserve1>0", n1.Sign() > 0)
}

// C13: buying from a pool (exact output) never lowers r0*r1.
func VerifHarness_C13_BuyKeepsK() {
	s := verifNewSwapV2()
	r0, r1 := verifBig("r0"), verifBig("r1")
	verifPositive(r0)
	verifPositive(r1)
	var p *PairV2
	if verifConfig("reversed") == 1 {
		p = verifSeedPool(s, 2, 1, r0, r1)
	} else {
		p = verifSeedPool(s, 1, 2, r0, r1)
	}
	out := verifBig("out")
	verifPositive(out)
	in := p.CalculateSellForBuy(out)
	if in == nil {
		verifAssert("nil-only-if-out>=reserve", out.Cmp(r1) >= 0)
		return
	}
	verifAssert("out<reserve", out.Cmp(r1) < 0)
	verifAssert("in>0", in.Sign() > 0)
	k0 := new(big.Int).Mul(r0, r1)
	err := p.checkSwap(in, big.NewInt(0), big.NewInt(0), out)
	verifAssert("check-accepts-quote", err == nil)
	p.Swap(in, big.NewInt(0), big.NewInt(0), out)
	n0, n1 := p.Reserves()
	verifAssert("k-nondecreasing", new(big.Int).Mul(n0, n1).Cmp(k0) >= 0)
	verifAssert("reserve1>0", n1.Sign() > 0)
}

// C13: whatever amounts a caller passes, checkSwap accepting implies that Swap
// does not panic, keeps K and leaves both reserves positive.
func VerifHarness_C13_CheckSwapGuardsSwap() {
	s := verifNewSwapV2()
	r0, r1 := verifBig("r0"), verifBig("r1")
	verifPositive(r0)
	verifPositive(r1)
	p := verifSeedPool(s, 1, 2, r0, r1)
	in, out := verifBig("in"), verifBig("out")
	verifAssume(in.Sign() >= 0)
	verifAssume(out.Sign() >= 0)
	if p.checkSwap(in, big.NewInt(0), big.NewInt(0), out) != nil {
		return
	}
	k0 := new(big.Int).Mul(r0, r1)
	p.Swap(in, big.NewInt(0), big.NewInt(0), out)
	n0, n1 := p.Reserves()
	verifAssert("k-nondecreasing", new(big.Int).Mul(n0, n1).Cmp(k0) >= 0)
	verifAssert("reserve0>0", n0.Sign() > 0)
	verifAssert("reserve1>0", n1.Sign() > 0)
	verifAssert("payout<=reserve", out.Cmp(r1) <= 0)
}

// C13: add liquidity, then burn exactly the minted pool tokens: neither coin
// comes back in a larger amount than was put in.
func VerifHarness_C13_MintBurn() {
	s := verifNewSwapV2()
	r0, r1, ts := verifBig("r0"), verifBig("r1"), verifBig("ts")
	verifPositive(r0)
	verifPositive(r1)
	verifAssume(ts.Cmp(Bound) > 0) // at least the locked minimum plus one unit exists
	p := verifSeedPool(s, 1, 2, r0, r1)
	a, max1 := verifBig("a"), verifBig("max1")
	verifPositive(a)
	verifAssume(max1.Sign() >= 0)
	if p.CheckMint(a, max1, ts) != nil {
		return
	}
	liq := p.Mint(a, max1, ts)
	verifAssert("liquidity>0", liq.Sign() > 0)
	m0, m1 := p.Reserves()
	put0 := new(big.Int).Sub(m0, r0)
	put1 := new(big.Int).Sub(m1, r1)
	verifAssert("put0=a", put0.Cmp(a) == 0)
	verifAssert("put1<=max1", put1.Cmp(max1) <= 0)
	verifAssert("put1>=0", put1.Sign() >= 0)
	ts2 := new(big.Int).Add(ts, liq)
	b0, b1 := p.Burn(liq, big.NewInt(0), big.NewInt(0), ts2)
	verifAssert("burn0<=put0", b0.Cmp(put0) <= 0)
	verifAssert("burn1<=put1", b1.Cmp(put1) <= 0)
	e0, e1 := p.Reserves()
	verifAssert("reserve0-not-drained", e0.Cmp(r0) >= 0)
	verifAssert("reserve1-not-drained", e1.Cmp(r1) >= 0)
}

// C13: removing liquidity never returns more than the proportional share.
func VerifHarness_C13_BurnShare() {
	s := verifNewSwapV2()
	r0, r1, ts := verifBig("r0"), verifBig("r1"), verifBig("ts")
	verifPositive(r0)
	verifPositive(r1)
	verifAssume(ts.Cmp(Bound) > 0)
	p := verifSeedPool(s, 1, 2, r0, r1)
	liq, min0, min1 := verifBig("liq"), verifBig("min0"), verifBig("min1")
	verifPositive(liq)
	// the holder cannot own the locked minimum: liq <= ts - Bound
	verifAssume(liq.Cmp(new(big.Int).Sub(ts, Bound)) <= 0)
	verifAssume(min0.Sign() >= 0)
	verifAssume(min1.Sign() >= 0)
	if p.CheckBurn(liq, min0, min1, ts) != nil {
		return
	}
	b0, b1 := p.Burn(liq, min0, min1, ts)
	// b/r <= liq/ts  <=>  b*ts <= liq*r
	verifAssert("share0", new(big.Int).Mul(b0, ts).Cmp(new(big.Int).Mul(liq, r0)) <= 0)
	verifAssert("share1", new(big.Int).Mul(b1, ts).Cmp(new(big.Int).Mul(liq, r1)) <= 0)
	verifAssert("min0-honoured", b0.Cmp(min0) >= 0)
	verifAssert("min1-honoured", b1.Cmp(min1) >= 0)
	e0, e1 := p.Reserves()
	verifAssert("reserve0>0", e0.Sign() > 0)
	verifAssert("reserve1>0", e1.Sign() > 0)
}

// C13: CheckCreate accepting implies Create mints strictly more than the
// locked minimum and does not panic.
func VerifHarness_C13_CreateLocksBound() {
	s := verifNewSwapV2()
	a0, a1 := verifBig("a0"), verifBig("a1")
	verifPositive(a0)
	verifPositive(a1)
	p := s.ReturnPair(1, 2)
	if p.CheckCreate(a0, a1) != nil {
		return
	}
	b0, b1, liq, id := s.PairCreate(1, 2, a0, a1)
	verifAssert("liquidity>Bound", liq.Cmp(Bound) > 0)
	verifAssert("reserves=amounts0", b0.Cmp(a0) == 0)
	verifAssert("reserves=amounts1", b1.Cmp(a1) == 0)
	verifAssert("id-assigned", id != 0)
	verifAssert("liq^2<=a0*a1", new(big.Int).Mul(liq, liq).Cmp(new(big.Int).Mul(a0, a1)) <= 0)
}
