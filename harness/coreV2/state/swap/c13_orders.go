package swap

import (
	"math/big"

	"github.com/MinterTeam/minter-go-node/coreV2/types"
)

func verifE18(n int64) *big.Int {
	return new(big.Int).Mul(big.NewInt(n), new(big.Int).Exp(big.NewInt(10), big.NewInt(18), nil))
}

// C13/C14: a taker sells an arbitrary amount into a pool with a concrete book
// of resting orders (config "orders" = 0..2, at two different prices worse
// than the pool price).  Whatever the amount: no panic, the pool's reserve
// product does not decrease, the taker is not paid more than pool plus orders
// hold, and every coin-0 unit the taker pays is accounted for (pool, order
// owners, burn).
func VerifHarness_C13_SellWithOrders() {
	s := verifNewSwapV2()
	r0, r1 := verifE18(10000), verifE18(10000)
	skew := verifConfig("skew") == 1
	if skew {
		// reserves of very different magnitude (1000 coin0 per coin1): the two
		// commissions of a filled order then differ by three orders of magnitude
		r0, r1 = verifE18(1000000), verifE18(1000)
	}
	p := verifSeedPool(s, 1, 2, r0, r1)
	owner1, owner2 := types.Address{1}, types.Address{2}
	n := verifConfig("orders")
	escrow := big.NewInt(0)
	if skew {
		p.AddOrder(verifE18(10100), verifE18(10), owner1, 1) // wants 10100 coin0 for 10 coin1 (price 1010)
		escrow.Add(escrow, verifE18(10))
	} else {
		if n >= 1 {
			p.AddOrder(verifE18(1000), verifE18(900), owner1, 1) // wants 1000 coin0 for 900 coin1
			escrow.Add(escrow, verifE18(900))
		}
		if n >= 2 {
			p.AddOrder(verifE18(1000), verifE18(700), owner2, 1)
			escrow.Add(escrow, verifE18(700))
		}
	}
	a := verifBigPos("a")
	verifAssume(a.Cmp(verifE18(100000)) <= 0)
	if verifConfig("minAmount") == 1 {
		verifAssume(a.Cmp(verifE18(2500)) >= 0) // deep enough to reach the second level
	}
	k0 := new(big.Int).Mul(r0, r1)
	// callers quote first (CheckSwap); a trade is executed only if the quote is positive
	quote, _ := p.CalculateBuyForSellWithOrders(a)
	if quote == nil || quote.Sign() != 1 {
		return
	}
	out, owners, _, _ := p.SellWithOrders(a)
	verifAssert("C06:executed=quoted", out.Cmp(quote) == 0)
	n0, n1 := p.Reserves()
	verifAssert("C13:k-nondecreasing", new(big.Int).Mul(n0, n1).Cmp(k0) >= 0)
	verifAssert("C13:out<=pool+escrow", out.Cmp(new(big.Int).Add(r1, escrow)) <= 0)
	verifAssert("C13:reserve1>0", n1.Sign() > 0)
	paidOwners := big.NewInt(0)
	for _, v := range owners {
		paidOwners.Add(paidOwners, v)
	}
	// coin0: taker's input = pool gain + owners + the 0.1% burned by the caller
	in := new(big.Int).Sub(a, calcCommission1000(a))
	gain0 := new(big.Int).Sub(n0, r0)
	verifAssert("C13:coin0-accounted", new(big.Int).Add(gain0, paidOwners).Cmp(in) == 0)
	verifNote("out", out)
}

// C13/C14 (buy side): a taker buys an arbitrary amount of coin 1 from a pool
// with a concrete book of resting orders.  Whatever the amount that the quote
// accepts: no panic, the reserve product does not decrease, the pool is never
// emptied of either coin, and the taker pays for everything it takes (the
// payout is covered by what pool and order owners receive at their prices).
func VerifHarness_C13_BuyWithOrders() {
	s := verifNewSwapV2()
	r0, r1 := verifE18(10000), verifE18(10000)
	p := verifSeedPool(s, 1, 2, r0, r1)
	owner1, owner2 := types.Address{1}, types.Address{2}
	n := verifConfig("orders")
	escrow := big.NewInt(0)
	if n >= 1 {
		p.AddOrder(verifE18(1000), verifE18(900), owner1, 1)
		escrow.Add(escrow, verifE18(900))
	}
	if n >= 2 {
		p.AddOrder(verifE18(1000), verifE18(700), owner2, 1)
		escrow.Add(escrow, verifE18(700))
	}
	if verifConfig("atPoolPrice") == 1 {
		// an order exactly at the pool price (filled before the pool moves)
		p.AddOrder(verifE18(500), verifE18(500), owner2, 1)
		escrow.Add(escrow, verifE18(500))
	}
	out := verifBigPos("out")
	verifAssume(out.Cmp(verifE18(20000)) <= 0)
	k0 := new(big.Int).Mul(r0, r1)
	quote, _ := p.CalculateSellForBuyWithOrders(out)
	if quote == nil || quote.Sign() != 1 {
		return
	}
	in, owners, _, _ := p.BuyWithOrders(out)
	// (quote and execution are two evaluations of the same division-heavy
	// formula: their equality is unknown to the solvers here; the sell-side
	// harness decides it for its side)
	n0, n1 := p.Reserves()
	verifAssert("C13:k-nondecreasing", new(big.Int).Mul(n0, n1).Cmp(k0) >= 0)
	verifAssert("C13:reserve1>0", n1.Sign() > 0)
	verifAssert("C13:reserve0>0", n0.Sign() > 0)
	verifAssert("C13:out<=pool+escrow", out.Cmp(new(big.Int).Add(r1, escrow)) < 0)
	verifAssert("C13:taker-pays-something", in.Sign() > 0)
	paidOwners := big.NewInt(0)
	for _, v := range owners {
		paidOwners.Add(paidOwners, v)
	}
	// coin0: what the taker pays (net of the 0.1% burned by the caller) = pool gain + owners
	gain0 := new(big.Int).Sub(n0, r0)
	net := new(big.Int).Sub(in, calcCommission1000(in))
	verifAssert("C13:coin0-accounted", new(big.Int).Add(gain0, paidOwners).Cmp(net) == 0)
	verifNote("in", in)
}
