package swap

import (
	"math/big"

	"github.com/MinterTeam/minter-go-node/coreV2/types"
)

// VerifSeed makes (c0,c1) a live pool with the given reserves, through the
// module's own pair constructor and reserve update.  Used by harnesses in
// other packages (injected by overlay; not part of the repository).
func (s *SwapV2) VerifSeed(c0, c1 types.CoinID, r0, r1 *big.Int) uint32 {
	p := s.ReturnPair(c0, c1)
	id := s.incID()
	*p.ID = id
	p.update(r0, r1)
	return id
}
