package swap

import (
	"math/big"

	"github.com/MinterTeam/minter-go-node/coreV2/types"
)

// VerifSeed makes (c0,c1) a live pool with the given reserves, through the
// module's own pair constructor and reserve update.  Used by harnesses in
// other packages (injected by overlay; not part of the repository).
func (s *SwapV2) VerifSeed(c0, c1 types.CoinID, r0, r1 *big.Int) uint32 {
	p := s.ReturnPair(c0, c1)
	id := s.incID()
	*p.ID = id
	p.update(r0, r1)
	return id
}

// VerifOrder returns what order id of pair (c0,c1) still wants to buy (of c0)
// and still holds in escrow (of c1), from the in-memory book of the pair when
// the order is loaded there (so that fills of the current block are seen) and
// from the committed tree otherwise; (0,0) when the order is gone.
func (s *SwapV2) VerifOrder(c0, c1 types.CoinID, id uint32) (*big.Int, *big.Int) {
	pair := s.Pair(c0, c1)
	if pair == nil {
		return big.NewInt(0), big.NewInt(0)
	}
	pair.lockOrders.Lock()
	defer pair.lockOrders.Unlock()
	if pair.isOrderAlreadyUsed(id) {
		return big.NewInt(0), big.NewInt(0)
	}
	o := pair.getOrder(id)
	if o == nil || o.isEmpty() {
		return big.NewInt(0), big.NewInt(0)
	}
	return new(big.Int).Set(o.WantBuy), new(big.Int).Set(o.WantSell)
}
