package candidates

import (
	"math/big"

	"github.com/MinterTeam/minter-go-node/coreV2/types"
)

// VerifHolding is a read-only view of a stake or pending update.
type VerifHolding struct {
	Owner    types.Address
	Coin     types.CoinID
	Value    *big.Int
	BipValue *big.Int
}

// VerifUpdates lists the pending stake updates of a candidate (read-only
// accessor injected by overlay; not part of the repository).
func (c *Candidates) VerifUpdates(pubkey types.Pubkey) []VerifHolding {
	candidate := c.GetCandidate(pubkey)
	if candidate == nil {
		return nil
	}
	var out []VerifHolding
	for _, u := range candidate.updates {
		out = append(out, VerifHolding{Owner: u.Owner, Coin: u.Coin, Value: new(big.Int).Set(u.Value), BipValue: new(big.Int).Set(u.BipValue)})
	}
	return out
}

// VerifStakes lists the stakes of a candidate.
func (c *Candidates) VerifStakes(pubkey types.Pubkey) []VerifHolding {
	candidate := c.GetCandidate(pubkey)
	if candidate == nil {
		return nil
	}
	var out []VerifHolding
	for _, s := range candidate.stakes {
		if s == nil {
			continue
		}
		out = append(out, VerifHolding{Owner: s.Owner, Coin: s.Coin, Value: new(big.Int).Set(s.Value), BipValue: new(big.Int).Set(s.BipValue)})
	}
	return out
}
