package checks

import "github.com/MinterTeam/minter-go-node/coreV2/types"

// VerifIsUsedHash mirrors IsCheckUsed for a raw hash (read-only accessor
// injected by overlay).
func (c *Checks) VerifIsUsedHash(h types.Hash) bool {
	c.lock.RLock()
	defer c.lock.RUnlock()
	if _, has := c.usedChecks[h]; has {
		return true
	}
	_, data := c.immutableTree().Get(append([]byte{mainPrefix}, h.Bytes()...))
	return len(data) != 0
}
