package state

import (
	"math/big"

	eventsdb "github.com/MinterTeam/minter-go-node/coreV2/events"
	"github.com/MinterTeam/minter-go-node/coreV2/state/commission"
	"github.com/MinterTeam/minter-go-node/coreV2/types"
	db "github.com/tendermint/tm-db"
)

func verifPriceTable() *commission.Price {
	c := func(n int64) *big.Int { return verifE18(n) }
	return &commission.Price{Coin: 0, PayloadByte: c(1), Send: c(2), BuyBancor: c(3), SellBancor: c(4), SellAllBancor: c(5),
		BuyPoolBase: c(6), BuyPoolDelta: c(7), SellPoolBase: c(8), SellPoolDelta: c(9), SellAllPoolBase: c(10), SellAllPoolDelta: c(11),
		CreateTicker3: c(12), CreateTicker4: c(13), CreateTicker5: c(14), CreateTicker6: c(15), CreateTicker7to10: c(16),
		CreateCoin: c(17), CreateToken: c(18), RecreateCoin: c(19), RecreateToken: c(20), DeclareCandidacy: c(21), Delegate: c(22),
		Unbond: c(23), RedeemCheck: c(24), SetCandidateOn: c(25), SetCandidateOff: c(26), CreateMultisig: c(27), MultisendBase: c(28),
		MultisendDelta: c(29), EditCandidate: c(30), SetHaltBlock: c(31), EditTickerOwner: c(32), EditMultisig: c(33),
		EditCandidatePublicKey: c(34), CreateSwapPool: c(35), AddLiquidity: c(36), RemoveLiquidity: c(37), EditCandidateCommission: c(38),
		BurnToken: c(39), MintToken: c(40), VoteCommission: c(41), VoteUpdate: c(42), FailedTx: c(43), AddLimitOrder: c(44),
		RemoveLimitOrder: c(45), MoveStake: c(46), LockStake: c(47), Lock: c(48)}
}

// verifPopulateGenesis fills every module so that the ledger is consistent
// (each custom coin's volume is the sum of its holdings), as any history of
// transactions leaves it.
func verifPopulateGenesis(st *State) types.Hash {
	A, B, C := verifA(1), verifA(2), verifA(3)
	P, Q := verifK(1), verifK(2)
	st.App.SetCoinsCount(4)
	st.App.SetTotalSlashed(verifAmount("slashed", 3))
	st.App.SetMaxGas(7000)
	st.Commission.SetNewCommissions(verifPriceTable().Encode())
	owner := A
	vol1, vol2 := big.NewInt(0), big.NewInt(0)
	for i, a := range []types.Address{A, B, C} {
		st.Accounts.SetBalance(a, 0, verifAmount("bal0."+string(rune('A'+i)), int64(100+i)))
		v := verifAmount("bal1."+string(rune('A'+i)), int64(200+i))
		st.Accounts.SetBalance(a, 1, v)
		vol1.Add(vol1, v)
		st.Accounts.SetNonce(a, uint64(5+i))
	}
	b2 := verifAmount("bal2.A", 300)
	st.Accounts.SetBalance(A, 2, b2)
	vol2.Add(vol2, b2)
	st.Accounts.CreateMultisig([]uint32{1, 2}, []types.Address{A, B}, 2, verifA(9))
	// an account that has spent everything: no balance left, but a nonce
	st.Accounts.SetNonce(verifA(8), verifU64Range("nonce.spent", 1, 1000000))
	st.Candidates.Create(A, A, A, P, 10, 1, 0)
	st.Candidates.Create(B, B, B, Q, 20, 1, 0)
	st.Candidates.SetOnline(P)
	for i, d := range []types.Address{A, B, C} {
		v := verifE18(int64(1500 + i))
		st.Candidates.Delegate(d, P, 0, v, v)
		w := verifE18(int64(2500 + i))
		st.Candidates.Delegate(d, Q, 0, w, w)
	}
	st.Candidates.RecalculateStakesV2(1)
	st.Validators.SetNewValidators(st.Candidates.GetNewCandidates(4))
	pP, pQ := P, Q
	st.FrozenFunds.AddFund(50, A, &pP, st.Candidates.ID(P), 0, verifAmount("ff1", 11), 0)
	st.FrozenFunds.AddFund(50, B, &pQ, st.Candidates.ID(Q), 0, verifAmount("ff2", 12), st.Candidates.ID(P))
	ff3 := verifAmount("ff3", 13)
	st.FrozenFunds.AddFund(60, C, nil, 0, 1, ff3, 0)
	vol1.Add(vol1, ff3)
	st.Waitlist.AddWaitList(A, P, 0, verifAmount("wl1", 21))
	wl2 := verifAmount("wl2", 22)
	st.Waitlist.AddWaitList(B, Q, 1, wl2)
	vol1.Add(vol1, wl2)
	st.Halts.AddHaltBlock(900, P)
	st.Halts.AddHaltBlock(901, Q)
	st.Updates.AddVote(800, P, "v9")
	// a pending commission vote for a table that differs from the current one in
	// several entries (the last ones of the struct included)
	voted := verifPriceTable()
	voted.Send = verifE18(1002)
	voted.LockStake = verifE18(1047)
	voted.Lock = verifE18(1048)
	voted.FailedTx = verifE18(1043)
	st.Commission.AddVote(850, P, voted.Encode())
	var h types.Hash
	h[0], h[1], h[31] = verifByte("check.hash0"), 7, 9
	st.Checks.UseCheckHash(h)
	st.Checks.UseCheckHash(types.Hash{2})
	st.SwapV2.PairCreate(1, 0, verifE18(4000), verifE18(6000))
	vol1.Add(vol1, verifE18(4000))
	st.SwapV2.PairCreate(2, 0, verifE18(400), verifE18(600))
	vol2.Add(vol2, verifE18(400))
	// two resting orders selling coin 1 for the base coin
	st.SwapV2.PairAddOrder(0, 1, verifE18(10), verifE18(20), A, 1)
	st.SwapV2.PairAddOrder(0, 1, verifE18(10), verifE18(30), B, 1)
	vol1.Add(vol1, verifE18(50))
	st.Coins.Create(1, types.StrToCoinSymbol("AAA"), "coin a", vol1, 50, verifAmount("res1", 20000), new(big.Int).Add(vol1, verifE18(1000000)), &owner)
	st.Coins.CreateToken(2, types.StrToCoinSymbol("TOK"), "token", true, true, vol2, new(big.Int).Add(vol2, verifE18(1000000)), &owner)
	// tokens whose mintable and burnable flags differ (seed C11-k: import copied one flag into the other)
	st.Accounts.SetBalance(B, 3, verifE18(30))
	st.Coins.CreateToken(3, types.StrToCoinSymbol("BURNME"), "burnable only", false, true, verifE18(30), verifE18(1000), &owner)
	st.Accounts.SetBalance(C, 4, verifE18(40))
	st.Coins.CreateToken(4, types.StrToCoinSymbol("MINTME"), "mintable only", true, false, verifE18(40), verifE18(1000), nil)
	return h
}

// C11: export -> verify -> import into an empty chain -> export again.
func VerifHarness_C11_ExportImport() {
	disk := db.NewMemDB()
	st, err := NewStateV3(0, disk, &eventsdb.MockEvents{}, 1, 2, 0)
	if err != nil {
		panic(err)
	}
	h := verifPopulateGenesis(st)
	if _, err := st.Commit(); err != nil {
		panic(err)
	}
	exp1 := st.Export()
	verifAssert("C11:export-passes-validation", exp1.Verify() == nil)
	verifAssert("C11:export-lists-every-used-check", len(exp1.UsedChecks) == 2)
	// what cmd/minter export adds from the app DB (not part of the state tree)
	exp1.PrevReward = types.RewardPrice{Time: 1, AmountBIP: "350", AmountUSDT: "1", Reward: "79", Off: false}
	exp1.Emission = "1000"

	st2, err := NewStateV3(0, db.NewMemDB(), &eventsdb.MockEvents{}, 1, 2, 0)
	if err != nil {
		panic(err)
	}
	if err := st2.Import(exp1, "v300"); err != nil {
		panic(err)
	}
	if _, err := st2.Commit(); err != nil {
		panic(err)
	}
	verifAssert("C21:used-check-survives-export-import", st2.Checks.VerifIsUsedHash(h))
	verifAssert("C04:nonce-of-an-emptied-account-survives-export-import", st2.Accounts.GetNonce(verifA(8)) == st.Accounts.GetNonce(verifA(8)))
	verifCompare11(verifObserve(st), verifObserve(st2))
	exp2 := st2.Export()
	verifAssert("C11:second-export-passes-validation", exp2.Verify() == nil)
	verifAssert("C11:same-accounts", verifDeepEq(exp1.Accounts, exp2.Accounts))
	verifAssert("C11:same-coins", verifDeepEq(exp1.Coins, exp2.Coins))
	verifAssert("C11:same-candidates", verifDeepEq(exp1.Candidates, exp2.Candidates))
	verifAssert("C11:same-validators", verifDeepEq(exp1.Validators, exp2.Validators))
	verifAssert("C11:same-waitlist", verifDeepEq(exp1.Waitlist, exp2.Waitlist))
	verifAssert("C11:same-frozen-funds", verifDeepEq(exp1.FrozenFunds, exp2.FrozenFunds))
	verifAssert("C11:same-pools", verifDeepEq(exp1.Pools, exp2.Pools))
	verifAssert("C11:same-used-checks", verifDeepEq(exp1.UsedChecks, exp2.UsedChecks))
	verifAssert("C11:same-halts", verifDeepEq(exp1.HaltBlocks, exp2.HaltBlocks))
	verifAssert("C11:same-update-votes", verifDeepEq(exp1.UpdateVotes, exp2.UpdateVotes))
	verifAssert("C11:same-commission", verifDeepEq(exp1.Commission, exp2.Commission))
	verifAssert("C11:export-lists-the-commission-vote", len(exp1.CommissionVotes) == 1)
	verifAssert("C11:same-commission-votes", verifDeepEq(exp1.CommissionVotes, exp2.CommissionVotes))
	verifAssert("C11:same-total-slashed", exp1.TotalSlashed == exp2.TotalSlashed)
	verifAssert("C11:same-max-gas", exp1.MaxGas == exp2.MaxGas)
}

func verifCompare11(a, b *verifView) {
	verifAssert("C11:getters:same-shape", len(a.vals) == len(b.vals))
	if len(a.vals) != len(b.vals) {
		return
	}
	for i := range a.vals {
		verifAssert("C11:getters:"+a.names[i], a.names[i] == b.names[i] && a.vals[i].Cmp(b.vals[i]) == 0)
	}
}
