package state

import (
	"context"
	"math/big"

	eventsdb "github.com/MinterTeam/minter-go-node/coreV2/events"
	"github.com/MinterTeam/minter-go-node/coreV2/types"
	db "github.com/tendermint/tm-db"
)

// C25 (map races between API reads and block execution).  The API serves
// queries from a CheckState, which wraps the *same* module objects that
// DeliverTx / EndBlock / Commit mutate; what keeps a query from meeting a
// mutation in the middle is each module's RWMutex.  A Go map read or iterated
// while another goroutine writes it is a fatal runtime error.
//
// One group of queries (config "read") and one piece of block execution
// (config "write") run on a committed, populated state — either the instance
// that executed the block (warm caches) or a fresh one over the same database
// (config "cold": reads load from the tree and fill the caches).  The engine
// records both traces and decides, over every interleaving of them that the
// locks allow, whether a map access of the query can coincide with a write of
// the block (gosym/race.go).  The query groups are kept small: natively the
// query is repeated while the block step runs, and a short cycle is what lets
// the race detector observe a predicted race reliably.

func verifRead25(cs *CheckState, kind int) {
	A, B := verifA(1), verifA(2)
	P, Q := verifK(1), verifK(2)
	ctx := context.Background()
	as := new(types.AppState)
	switch kind {
	case 0: // estimate handlers: best route search
		cs.Swap().GetBestTradeExactIn(ctx, 0, 1, verifE18(1), 4)
		cs.Swap().GetBestTradeExactOut(ctx, 1, 0, verifE18(1), 4)
	case 1: // pool handlers
		cs.Swap().SwapPoolExist(1, 0)
		cs.Swap().SwapPool(2, 0)
		cs.Swap().GetSwapper(1, 0).Reserves()
		cs.Swap().SwapPools(ctx)
		cs.Swap().GetOrder(1)
	case 2: // address handlers
		cs.Accounts().GetBalance(A, 0)
		cs.Accounts().GetBalances(B)
		cs.Accounts().GetNonce(A)
		cs.Accounts().ExistsMultisig(verifA(9))
	case 3: // waitlist handlers
		cs.WaitList().GetByAddress(A)
		cs.WaitList().Get(B, Q, 1)
	case 4: // candidate handlers
		cs.Candidates().GetCandidates()
		cs.Candidates().GetCandidate(P)
		cs.Candidates().IsBlockedPubKey(P)
		cs.Candidates().Count()
		cs.Validators().GetValidators()
	case 5: // candidate stakes (the candidates handler loads all stakes)
		cs.Candidates().LoadStakes()
		cs.Candidates().GetStakes(Q)
		cs.Candidates().GetTotalStake(P)
	case 6: // coin handlers
		cs.Coins().GetCoin(1)
		cs.Coins().GetCoinBySymbol(types.StrToCoinSymbol("TOK"), 0)
		cs.Coins().GetSymbolInfo(types.StrToCoinSymbol("AAA"))
		cs.Coins().Exists(2)
	case 7: // frozen funds, halts, app
		cs.FrozenFunds().GetFrozenFunds(50)
		cs.FrozenFunds().GetFrozenFundsAll(ctx, 50, 60)
		cs.Halts().GetHaltBlocks(900)
		cs.App().GetMaxGas()
		cs.App().GetTotalSlashed()
	case 8: // state export: pools and orders
		cs.Swap().Export(as)
	case 9: // state export: candidates and validators
		cs.Candidates().Export(as)
		cs.Validators().Export(as)
	case 10: // state export: the other modules (the universe has no commission table)
		cs.App().Export(as)
		cs.WaitList().Export(as)
		cs.FrozenFunds().Export(as, 1)
		cs.Accounts().Export(as)
		cs.Coins().Export(as)
		cs.Checks().Export(as)
		cs.Halts().Export(as)
		cs.Updates().Export(as)
	}
}

func verifWrite25(st *State, kind int) {
	A, B, C := verifA(1), verifA(2), verifA(3)
	P, Q := verifK(1), verifK(2)
	switch kind {
	case 0: // pool creation and trades
		st.SwapV2.PairCreate(2, 1, verifE18(300), verifE18(500))
		st.SwapV2.PairSellWithOrders(1, 0, verifE18(1), big.NewInt(0))
		st.SwapV2.PairAddOrder(0, 1, verifE18(10), verifE18(40), C, 2)
	case 1: // balances, nonces, a new account, waitlist
		st.Accounts.SubBalance(A, 0, big.NewInt(1))
		st.Accounts.AddBalance(verifA(7), 1, verifAmount("c25.add", 9))
		st.Accounts.SetNonce(B, 99)
		st.Waitlist.AddWaitList(C, P, 0, verifAmount("c25.wl", 5))
		st.Waitlist.Delete(A, P, 0)
	case 2: // candidates and stakes
		st.Candidates.Create(C, C, C, verifK(6), 10, 2, 0)
		st.Candidates.Delegate(C, Q, 0, verifE18(3000), verifE18(3000))
		st.Candidates.SetOffline(P)
		st.Candidates.RecalculateStakesV2(2)
		st.Validators.SetNewValidators(st.Candidates.GetNewCandidates(4))
	case 3: // coins
		owner := C
		st.Coins.Create(3, types.StrToCoinSymbol("CCC"), "coin c", verifE18(100), 40, verifE18(20000), verifE18(1000000), &owner)
		st.Coins.SubVolume(1, big.NewInt(1))
		st.Coins.ChangeOwner(types.StrToCoinSymbol("AAA"), B)
		st.App.SetCoinsCount(3)
	case 4: // frozen funds, halts, votes, checks, app
		pk := P
		st.FrozenFunds.AddFund(50, C, &pk, st.Candidates.ID(P), 0, verifAmount("c25.ff", 14), 0)
		st.FrozenFunds.Delete(60)
		st.Halts.AddHaltBlock(900, P)
		st.Checks.UseCheckHash(types.Hash{9})
		st.App.AddTotalSlashed(big.NewInt(4))
		st.App.SetMaxGas(8000)
	}
	if verifConfig("commit") == 1 {
		if _, err := st.Commit(); err != nil {
			panic(err)
		}
	}
}

func VerifHarness_C25_MapRaces() {
	disk := db.NewMemDB()
	st, err := NewStateV3(0, disk, &eventsdb.MockEvents{}, 1, 2, 0)
	if err != nil {
		panic(err)
	}
	verifPopulate(st)
	if _, err := st.Commit(); err != nil {
		panic(err)
	}
	if verifConfig("cold") == 1 {
		st, err = NewStateV3(1, disk, &eventsdb.MockEvents{}, 1, 2, 0)
		if err != nil {
			panic(err)
		}
	}
	cs := NewCheckState(st)
	r, w := verifConfig("read"), verifConfig("write")
	verifConcurrently(func() { verifRead25(cs, r) }, func() { verifWrite25(st, w) })
}
