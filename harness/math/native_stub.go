package math

// Native replay stub for Pow (see harness/formula/native_stub.go): records the
// arguments of every call and returns the model's value for an application
// the replayed model mentions, the real result otherwise.

import (
	"math/big"
)

type VerifPowCall struct{ Z, W *big.Rat }

var verifPowCalls []VerifPowCall

func VerifPowCalls() []VerifPowCall { return verifPowCalls }

func verifRatKey(r *big.Rat) string {
	if r.IsInt() {
		return r.Num().String() + ".0"
	}
	return "(/ " + r.Num().String() + ".0 " + r.Denom().String() + ".0)"
}

func Pow(z *big.Float, w *big.Float) *big.Float {
	zr, _ := z.Rat(nil)
	wr, _ := w.Rat(nil)
	if zr != nil && wr != nil {
		verifPowCalls = append(verifPowCalls, VerifPowCall{zr, wr})
		key := "uf:math.Pow|" + verifRatKey(zr) + "," + verifRatKey(wr)
		if s, ok := verifLoad().Vars[key]; ok {
			if r, ok := new(big.Rat).SetString(verifSMTReal(s)); ok {
				return new(big.Float).SetPrec(z.Prec()).SetRat(r)
			}
		}
	}
	return verifRealPow(z, w)
}

// verifSMTReal turns "(/ 1.0 2.0)" / "3.0" / "-(…)" into "1/2" / "3".
func verifSMTReal(s string) string {
	neg := false
	if len(s) > 3 && s[:3] == "(- " {
		neg = true
		s = s[3 : len(s)-1]
	}
	out := ""
	if len(s) > 3 && s[:3] == "(/ " {
		body := s[3 : len(s)-1]
		parts := []string{"", ""}
		k := 0
		for _, c := range body {
			if c == ' ' {
				k = 1
				continue
			}
			parts[k] += string(c)
		}
		out = trimDot0(parts[0]) + "/" + trimDot0(parts[1])
	} else {
		out = trimDot0(s)
	}
	if neg {
		out = "-" + out
	}
	return out
}

func trimDot0(s string) string {
	if len(s) > 2 && s[len(s)-2:] == ".0" {
		return s[:len(s)-2]
	}
	return s
}
