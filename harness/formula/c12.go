package formula

import "math/big"

// C12 (formula layer): the four bancor functions with big.Float over exact
// reals and math.Pow as an uninterpreted function constrained by real-analysis
// facts about x^y (positivity, monotone bounds around 1, x^1 = x, x^0 = 1).
// Config "crr100" = 1 checks the exact integer branches.

// verifExponentIs asserts that the (only) Pow application received exactly the
// float64 value num/den as its exponent: the bonding-curve exponent crr/100 or
// 100/crr, which the uninterpreted Pow cannot otherwise distinguish.
func verifExponentIs(label string, f float64) {
	n, d := verifUFConstArg("math.Pow", 0, 1)
	if n == nil {
		return
	}
	want := new(big.Rat).SetFloat64(f)
	verifAssert(label, new(big.Int).Mul(n, want.Denom()).Cmp(new(big.Int).Mul(want.Num(), d)) == 0)
}

// verifCap: with config "pip33" the amounts are bounded by the property's own
// range (10^33 pip), which the rounding-aware float mode needs (integers below
// 2^110 entering 100-bit floats).
func verifCap(xs ...*big.Int) {
	if verifConfig("pip33") != 1 {
		return
	}
	max := new(big.Int).Exp(big.NewInt(10), big.NewInt(33), nil)
	for _, x := range xs {
		verifAssume(x.Cmp(max) <= 0)
	}
}

func verifCRR() uint32 {
	if verifConfig("crr100") == 1 {
		return 100
	}
	// the reserve ratio reaches Pow through a float64 conversion: it is a
	// concrete configuration value (every value 10..99 is enumerated by the
	// thorough tier), amounts stay symbolic
	return uint32(verifConfig("crr"))
}

func VerifHarness_C12_SaleReturn() {
	supply, reserve := verifBigPos("supply"), verifBigPos("reserve")
	crr := verifCRR()
	amount := verifBigNN("amount")
	verifAssume(amount.Cmp(supply) <= 0)
	verifCap(supply, reserve, amount)
	r := CalculateSaleReturn(supply, reserve, crr, amount)
	verifAssert("C12:sale-return>=0", r.Sign() >= 0)
	verifAssert("C12:sale-return<=reserve", r.Cmp(reserve) <= 0)
	if amount.Sign() == 0 {
		verifAssert("C12:zero-in-zero-out", r.Sign() == 0)
	}
	if amount.Cmp(supply) == 0 {
		verifAssert("C12:sell-all=reserve", r.Cmp(reserve) == 0)
	}
	if crr == 100 {
		want := new(big.Int).Div(new(big.Int).Mul(reserve, amount), supply)
		verifAssert("C12:crr100-exact", r.Cmp(want) == 0)
	} else {
		verifExponentIs("C12:sale-return-exponent=100/crr", 100/float64(crr))
	}
}

func VerifHarness_C12_PurchaseReturn() {
	supply, reserve := verifBigPos("supply"), verifBigPos("reserve")
	crr := verifCRR()
	deposit := verifBigNN("deposit")
	verifCap(supply, reserve, deposit)
	r := CalculatePurchaseReturn(supply, reserve, crr, deposit)
	verifAssert("C12:purchase-return>=0", r.Sign() >= 0)
	if deposit.Sign() == 0 {
		verifAssert("C12:zero-in-zero-out", r.Sign() == 0)
	}
	if crr == 100 {
		want := new(big.Int).Div(new(big.Int).Mul(supply, deposit), reserve)
		verifAssert("C12:crr100-exact", r.Cmp(want) == 0)
	} else {
		verifExponentIs("C12:purchase-return-exponent=crr/100", float64(crr)/100)
	}
}

func VerifHarness_C12_PurchaseAmount() {
	supply, reserve := verifBigPos("supply"), verifBigPos("reserve")
	crr := verifCRR()
	want := verifBigNN("wantReceive")
	verifCap(supply, reserve, want)
	r := CalculatePurchaseAmount(supply, reserve, crr, want)
	verifAssert("C12:purchase-amount>=0", r.Sign() >= 0)
	if want.Sign() == 0 {
		verifAssert("C12:zero-in-zero-out", r.Sign() == 0)
	}
	if crr == 100 {
		w := new(big.Int).Div(new(big.Int).Mul(want, reserve), supply)
		verifAssert("C12:crr100-exact", r.Cmp(w) == 0)
	} else {
		verifExponentIs("C12:purchase-amount-exponent=100/crr", 100/float64(crr))
	}
}

func VerifHarness_C12_SaleAmount() {
	supply, reserve := verifBigPos("supply"), verifBigPos("reserve")
	crr := verifCRR()
	want := verifBigNN("wantReceive")
	// call-site guard (CheckReserveUnderflow): wantReceive stays below the reserve
	verifAssume(want.Cmp(reserve) < 0)
	verifCap(supply, reserve, want)
	r := CalculateSaleAmount(supply, reserve, crr, want)
	verifAssert("C12:sale-amount>=0", r.Sign() >= 0)
	verifAssert("C12:sale-amount<=supply", r.Cmp(supply) <= 0)
	if want.Sign() == 0 {
		verifAssert("C12:zero-in-zero-out", r.Sign() == 0)
	}
	if crr == 100 {
		w := new(big.Int).Div(new(big.Int).Mul(want, supply), reserve)
		verifAssert("C12:crr100-exact", r.Cmp(w) == 0)
	} else {
		verifExponentIs("C12:sale-amount-exponent=crr/100", float64(crr)/100)
	}
}

// C12 (rounding of integers entering 100-bit floats; FloatMode real-roundint:
// SetInt rounds to nearest-even at the receiver's precision, every other float
// operation stays over exact reals).  Two slices of the property in which all
// intermediate float values are exactly representable, so that this hybrid
// model coincides with the real arithmetic:
//
// SellAllRounded: selling the entire supply returns exactly the reserve, for
// every supply and reserve up to 10^33 pip (reserves above 2^100 do not fit a
// 100-bit mantissa).
func VerifHarness_C12_SellAllRounded() {
	supply, reserve := verifBigPos("supply"), verifBigPos("reserve")
	crr := verifCRR()
	verifCap(supply, reserve)
	r := CalculateSaleReturn(supply, reserve, crr, new(big.Int).Set(supply))
	verifAssert("C12:sell-all=reserve", r.Cmp(reserve) == 0)
}

// NearTotalSaleRounded: supply 10^33 pip (exactly representable), all of it but
// one pip sold (the amount rounds to the supply, the curve factor is exactly
// 1): the return must not exceed the reserve, for every reserve up to 10^33.
func VerifHarness_C12_NearTotalSaleRounded() {
	supply := new(big.Int).Exp(big.NewInt(10), big.NewInt(33), nil)
	amount := new(big.Int).Sub(supply, big.NewInt(1))
	reserve := verifBigPos("reserve")
	crr := verifCRR()
	verifCap(reserve)
	r := CalculateSaleReturn(supply, reserve, crr, amount)
	verifAssert("C12:sale-return<=reserve", r.Cmp(reserve) <= 0)
	verifAssert("C12:sale-return>=0", r.Sign() >= 0)
}
