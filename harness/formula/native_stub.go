package formula

// Native replay stubs for the bancor formulas.  Under the symbolic engine the
// four Calculate* functions are uninterpreted functions; a model assigns each
// application a value.  For native replay vcheck renames the real functions
// (a checked textual rewrite of the current formula.go, done at run time) to
// verifReal* and these wrappers return the model's value for an application
// the model mentions, and the real result otherwise.

import (
	"math/big"
	"strconv"

	"github.com/MinterTeam/minter-go-node/math"
)

func init() {
	verifUFHook = func(name string, call, arg int) (*big.Int, *big.Int) {
		if name != "math.Pow" {
			return nil, nil
		}
		calls := math.VerifPowCalls()
		if call >= len(calls) {
			return nil, nil
		}
		r := calls[call].Z
		if arg == 1 {
			r = calls[call].W
		}
		return new(big.Int).Set(r.Num()), new(big.Int).Set(r.Denom())
	}
}

func verifUF(name string, supply, reserve *big.Int, crr uint32, amount *big.Int) (*big.Int, bool) {
	key := "uf:formula." + name + "|" + supply.String() + "," + reserve.String() + "," + strconv.FormatUint(uint64(crr), 10) + "," + amount.String()
	s, ok := verifLoad().Vars[key]
	if !ok {
		return nil, false
	}
	v, ok := new(big.Int).SetString(s, 10)
	return v, ok
}

func CalculatePurchaseReturn(supply *big.Int, reserve *big.Int, crr uint32, deposit *big.Int) *big.Int {
	if v, ok := verifUF("CalculatePurchaseReturn", supply, reserve, crr, deposit); ok {
		return v
	}
	return verifRealCalculatePurchaseReturn(supply, reserve, crr, deposit)
}

func CalculatePurchaseAmount(supply *big.Int, reserve *big.Int, crr uint32, wantReceive *big.Int) *big.Int {
	if v, ok := verifUF("CalculatePurchaseAmount", supply, reserve, crr, wantReceive); ok {
		return v
	}
	return verifRealCalculatePurchaseAmount(supply, reserve, crr, wantReceive)
}

func CalculateSaleReturn(supply *big.Int, reserve *big.Int, crr uint32, sellAmount *big.Int) *big.Int {
	if v, ok := verifUF("CalculateSaleReturn", supply, reserve, crr, sellAmount); ok {
		return v
	}
	return verifRealCalculateSaleReturn(supply, reserve, crr, sellAmount)
}

func CalculateSaleAmount(supply *big.Int, reserve *big.Int, crr uint32, wantReceive *big.Int) *big.Int {
	if v, ok := verifUF("CalculateSaleAmount", supply, reserve, crr, wantReceive); ok {
		return v
	}
	return verifRealCalculateSaleAmount(supply, reserve, crr, wantReceive)
}
