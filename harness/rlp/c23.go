package rlp

import (
	"bytes"
)

func verifBuf(n int) []byte {
	b := make([]byte, n)
	for i := range b {
		b[i] = verifByte("b" + string(rune('0'+i)))
	}
	return b
}

// verifCanonicalString: the unique RLP encoding of the byte string s occupies
// exactly `consumed` bytes starting with `first`.
func verifCanonicalString(s []byte, first byte, consumed int) bool {
	switch {
	case len(s) == 1 && s[0] < 0x80:
		return consumed == 1 && first == s[0]
	case len(s) < 56:
		return consumed == 1+len(s) && first == 0x80+byte(len(s))
	}
	return true // longer strings do not fit the bounded buffer
}

func verifAssertBytesEq(label string, a, b []byte) {
	verifAssert(label, len(a) == len(b))
	if len(a) != len(b) {
		return
	}
	for i := range a {
		verifAssert(label, a[i] == b[i])
	}
}

// C23/C07: Stream.Bytes over an arbitrary buffer of n bytes (config "n").  No
// input panics; whenever a string is accepted, the bytes consumed are exactly
// its canonical encoding (no long form for short strings, no single byte in
// string form).
func VerifHarness_C23_StreamBytes() {
	n := verifConfig("n")
	buf := verifBuf(n)
	first := buf[0]
	r := bytes.NewReader(buf)
	s := NewStream(r, 0)
	out, err := s.Bytes()
	if err != nil {
		return
	}
	consumed := n - r.Len()
	verifAssert("C23:accepted-string-is-canonical", verifCanonicalString(out, first, consumed))
	w := &encbuf{}
	w.encodeString(out)
	verifAssertBytesEq("C23:string-reencodes-to-the-input-bytes", w.toBytes(), buf[:consumed])
}

// C23/C07: Stream.Uint: accepted integers have no leading zero byte, values
// below 128 come as a single byte, zero is the empty string.
func VerifHarness_C23_StreamUint() {
	n := verifConfig("n")
	buf := verifBuf(n)
	first := buf[0]
	r := bytes.NewReader(buf)
	s := NewStream(r, 0)
	v, err := s.Uint()
	if err != nil {
		return
	}
	consumed := n - r.Len()
	// canonical big-endian encoding of v
	var be []byte
	for x := v; x > 0; x >>= 8 {
		be = append([]byte{byte(x)}, be...)
	}
	verifAssert("C23:accepted-uint-is-canonical", verifCanonicalString(be, first, consumed))
	w := &encbuf{}
	w.encodeUint(v)
	verifAssertBytesEq("C23:uint-reencodes-to-the-input-bytes", w.toBytes(), buf[:consumed])
}

// C07: the list layer never panics on an arbitrary buffer: enter a list, read
// up to two strings, leave the list.
func VerifHarness_C07_StreamList() {
	n := verifConfig("n")
	buf := verifBuf(n)
	r := bytes.NewReader(buf)
	s := NewStream(r, 0)
	size, err := s.List()
	verifAssert("C07:list-size-within-buffer", err != nil || size <= uint64(n))
	if err != nil {
		return
	}
	if _, err := s.Bytes(); err == nil {
		s.Bytes()
	}
	s.ListEnd()
	verifAssert("C07:reader-not-overrun", r.Len() >= 0 && r.Len() <= n)
}

// C23: encode -> decode round trip of the integer primitive over all uint64.
func VerifHarness_C23_EncodeDecodeUint() {
	i := verifU64("i")
	if bits := verifConfig("bits"); bits > 0 && bits < 64 {
		verifAssume(i < uint64(1)<<uint(bits)) // stated bound
	}
	w := &encbuf{}
	w.encodeUint(i)
	out := w.toBytes()
	s := NewStream(bytes.NewReader(out), 0)
	v, err := s.Uint()
	verifAssert("C23:encoded-uint-decodes", err == nil)
	verifAssert("C23:encoded-uint-decodes-to-itself", err != nil || v == i)
}

// C23: a list of up to two strings that the stream layer accepts re-encodes to
// exactly the bytes consumed (list header canonical, no trailing garbage inside
// the list).
func VerifHarness_C23_StreamListReencode() {
	n := verifConfig("n")
	buf := verifBuf(n)
	r := bytes.NewReader(buf)
	s := NewStream(r, 0)
	if _, err := s.List(); err != nil {
		return
	}
	var items [][]byte
	for k := 0; k < 3; k++ {
		b, err := s.Bytes()
		if err == EOL {
			break
		}
		if err != nil {
			return
		}
		items = append(items, b)
	}
	if err := s.ListEnd(); err != nil {
		return
	}
	consumed := n - r.Len()
	w := &encbuf{}
	idx := w.list()
	for _, it := range items {
		w.encodeString(it)
	}
	w.listEnd(idx)
	verifAssertBytesEq("C23:list-reencodes-to-the-input-bytes", w.toBytes(), buf[:consumed])
}
